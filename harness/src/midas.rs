//! Minimal MIDAS file writer (little endian, 32-bit banks).
pub struct Event { pub id: u16, pub serial: u32, pub timestamp: u32, pub banks: Vec<(String, Vec<u8>)> }
pub fn event_bytes(e: &Event) -> Vec<u8> {
    let mut banks = Vec::new();
    for (name, data) in &e.banks { assert_eq!(name.len(), 4); banks.extend(name.as_bytes()); banks.extend(1u32.to_le_bytes()); banks.extend((data.len() as u32).to_le_bytes()); banks.extend(data); for _ in 0..((8 - data.len() % 8) % 8) { banks.push(0); } }
    let mut v = Vec::new(); v.extend(e.id.to_le_bytes()); v.extend(0u16.to_le_bytes()); v.extend(e.serial.to_le_bytes()); v.extend(e.timestamp.to_le_bytes());
    v.extend(((banks.len() + 8) as u32).to_le_bytes()); v.extend((banks.len() as u32).to_le_bytes()); v.extend(17u32.to_le_bytes()); v.extend(banks); v
}
pub fn file_bytes(run: u32, t0: u32, t1: u32, events: &[Event]) -> Vec<u8> {
    let mut v = Vec::new(); v.extend(0x8000u16.to_le_bytes()); v.extend(0x494Du16.to_le_bytes()); v.extend(run.to_le_bytes()); v.extend(t0.to_le_bytes()); let odb = b"{}"; v.extend((odb.len() as u32).to_le_bytes()); v.extend(odb);
    for e in events { v.extend(event_bytes(e)); }
    v.extend(0x8001u16.to_le_bytes()); v.extend(0x494Du16.to_le_bytes()); v.extend(run.to_le_bytes()); v.extend(t1.to_le_bytes()); v.extend((odb.len() as u32).to_le_bytes()); v.extend(odb); v
}
/// The same in any of the formats the MIDAS library reads: little or big endian; bank flavour 1 (16-bit sizes), 17 (32-bit)
/// or 49 (32-bit with a reserved word). Bank *contents* are device data and stay byte for byte what they are.
pub fn event_bytes_fmt(e: &Event, be: bool, flavour: u32) -> Vec<u8> {
    let w16 = |v: &mut Vec<u8>, x: u16| v.extend(if be { x.to_be_bytes() } else { x.to_le_bytes() });
    let w32 = |v: &mut Vec<u8>, x: u32| v.extend(if be { x.to_be_bytes() } else { x.to_le_bytes() });
    let mut banks = Vec::new();
    for (name, data) in &e.banks {
        assert_eq!(name.len(), 4);
        banks.extend(name.as_bytes());
        match flavour {
            1 => {
                assert!(data.len() < 65536);
                w16(&mut banks, 1);
                w16(&mut banks, data.len() as u16);
            }
            17 => {
                w32(&mut banks, 1);
                w32(&mut banks, data.len() as u32);
            }
            _ => {
                w32(&mut banks, 1);
                w32(&mut banks, data.len() as u32);
                banks.extend([0u8; 4]);
            }
        }
        banks.extend(data);
        for _ in 0..((8 - data.len() % 8) % 8) {
            banks.push(0);
        }
    }
    let mut v = Vec::new();
    w16(&mut v, e.id);
    w16(&mut v, 0);
    w32(&mut v, e.serial);
    w32(&mut v, e.timestamp);
    w32(&mut v, (banks.len() + 8) as u32);
    w32(&mut v, banks.len() as u32);
    w32(&mut v, flavour);
    v.extend(banks);
    v
}
pub fn file_bytes_fmt(run: u32, t0: u32, t1: u32, events: &[Event], be: bool, flavour: u32) -> Vec<u8> {
    let w16 = |v: &mut Vec<u8>, x: u16| v.extend(if be { x.to_be_bytes() } else { x.to_le_bytes() });
    let w32 = |v: &mut Vec<u8>, x: u32| v.extend(if be { x.to_be_bytes() } else { x.to_le_bytes() });
    let odb = b"{}";
    let mut v = Vec::new();
    w16(&mut v, 0x8000);
    w16(&mut v, 0x494D);
    w32(&mut v, run);
    w32(&mut v, t0);
    w32(&mut v, odb.len() as u32);
    v.extend(odb);
    for e in events {
        v.extend(event_bytes_fmt(e, be, flavour));
    }
    w16(&mut v, 0x8001);
    w16(&mut v, 0x494D);
    w32(&mut v, run);
    w32(&mut v, t1);
    w32(&mut v, odb.len() as u32);
    v.extend(odb);
    v
}
pub fn write(path: &std::path::Path, bytes: &[u8]) {
    if path.extension().map(|e| e == "lz4").unwrap_or(false) { use std::io::Write; let f = std::fs::File::create(path).unwrap(); let mut enc = lz4::EncoderBuilder::new().build(f).unwrap(); enc.write_all(bytes).unwrap(); let (_, r) = enc.finish(); r.unwrap(); }
    else { std::fs::write(path, bytes).unwrap(); }
}

/// `.lz4` written in pieces with a flush after each piece: legal, but the decoder then delivers many short reads.
pub fn write_lz4_flushed(path: &std::path::Path, bytes: &[u8], piece: usize) {
    use std::io::Write;
    let f = std::fs::File::create(path).unwrap();
    let mut enc = lz4::EncoderBuilder::new().build(f).unwrap();
    for c in bytes.chunks(piece.max(1)) {
        enc.write_all(c).unwrap();
        enc.flush().unwrap();
    }
    let (_, r) = enc.finish();
    r.unwrap();
}
