//! Chronobox hardware FIFO model + reference parser.
use crate::core::Rng;
#[derive(Clone, Copy, Debug, PartialEq)]
pub enum Entry { Ts { channel: u8, leading: bool, ts: u32 }, Marker { top: bool, counter: u32 } }
pub fn classify(w: [u8; 4]) -> Option<Entry> {
    let low = u32::from_le_bytes([w[0], w[1], w[2], 0]);
    if w[3] == 0xFF { return Some(Entry::Marker { top: low & 0x80_0000 != 0, counter: low & 0x7F_FFFF }); }
    if w[3] & 0x80 != 0 && (w[3] & 0x7F) < 59 { return Some(Entry::Ts { channel: w[3] & 0x7F, leading: low & 1 == 0, ts: low & 0xFF_FFFE }); }
    None
}
pub const TAG: [u8; 4] = [0x3C, 0, 0, 0xFE];
/// returns (entries, bytes consumed)
pub fn ref_parse(mut b: &[u8]) -> (Vec<Entry>, usize) {
    let n0 = b.len(); let mut out = Vec::new();
    loop {
        if b.len() >= 4 { if let Some(e) = classify([b[0], b[1], b[2], b[3]]) { out.push(e); b = &b[4..]; continue; } }
        if b.len() >= 244 && b[..4] == TAG { b = &b[244..]; continue; }
        break;
    }
    (out, n0 - b.len())
}
pub fn ts_word(channel: u8, trailing: bool, t: u64) -> [u8; 4] { let low = ((t as u32) & 0xFF_FFFE) | trailing as u32; let l = low.to_le_bytes(); [l[0], l[1], l[2], 0x80 | channel] }
pub fn marker_word(counter: u32) -> [u8; 4] { let top = counter % 2 == 1; let low = (counter & 0x7F_FFFF) | ((top as u32) << 23); let l = low.to_le_bytes(); [l[0], l[1], l[2], 0xFF] }
pub fn scaler_block(rng: &mut Rng) -> Vec<u8> { let mut v = TAG.to_vec(); for _ in 0..240 { v.push(rng.next() as u8); } v }
/// One board stream: returns words (as FIFO items) with truth. item: (bytes, Option<(channel, leading, true_tick)>)
pub struct Item { pub bytes: Vec<u8>, pub edge: Option<(u8, bool, u64)>, pub marker: Option<u32> }
pub fn stream(rng: &mut Rng, half_wraps: u32, n_edges: usize, displaced_frac: f64) -> Vec<Item> {
    let tmax = (half_wraps as u64 + 1) * (1 << 23) + rng.below(1 << 23);
    // (sort key, item)
    let mut v: Vec<(u64, u8, Item)> = Vec::new();
    for k in 0..half_wraps { v.push((((k as u64) + 1) << 23, 0, Item { bytes: marker_word(k).to_vec(), edge: None, marker: Some(k) })); }
    for _ in 0..n_edges {
        let near = rng.below(3) == 0 && half_wraps > 0;
        let t = if near { let k = rng.below(half_wraps as u64) + 1; let d = rng.below(8) as i64 - 4; ((k << 23) as i64 + d).max(0) as u64 } else { rng.below(tmax) };
        let ch = rng.below(59) as u8; let trailing = rng.below(2) == 1;
        // FIFO position key: true time, possibly displaced across nearest marker
        let mut key = t;
        if rng.f() < displaced_frac { let d = rng.below(1 << 22) as i64 * if rng.below(2) == 0 { 1 } else { -1 }; key = (t as i64 + d).max(0) as u64; }
        v.push((key, 1, Item { bytes: ts_word(ch, trailing, t).to_vec(), edge: Some((ch, !trailing, t)), marker: None }));
    }
    for _ in 0..rng.below(4) { v.push((rng.below(tmax), 2, Item { bytes: scaler_block(rng), edge: None, marker: None })); }
    v.sort_by_key(|x| (x.0, x.1)); v.into_iter().map(|x| x.2).collect()
}
