//! Reference decoders written from the property statements / documented layouts only.
//! They share no code with the library under test.
use crate::enc::{self, floor_mean64, Adc, Pwb, Trg, A16_MACS};

// ---------------------------------------------------------------------------- ADC v3
#[derive(Debug, PartialEq, Clone)]
pub struct AdcF {
    pub at: u16,
    pub module: u8,
    pub chan: u8,
    pub rs: u16,
    pub ts: u64,
    pub mac: Option<[u8; 6]>,
    pub toff: Option<i32>,
    pub build: Option<u32>,
    pub wf: Vec<i16>,
    pub base: i16,
    pub kl: u16,
    pub kb: bool,
    pub sup: bool,
}
pub fn adc_ref(b: &[u8]) -> Option<AdcF> {
    let n = b.len();
    if n < 16 {
        return None;
    }
    if b[0] != 1 || b[1] != 3 || b[4] > 7 {
        return None;
    }
    if !(b[5] <= 15 || (128..=159).contains(&b[5])) {
        return None;
    }
    let at = u16::from_be_bytes([b[2], b[3]]);
    let rs = u16::from_be_bytes([b[6], b[7]]);
    let lsw = u32::from_be_bytes([b[8], b[9], b[10], b[11]]);
    let foot = u16::from_be_bytes([b[n - 4], b[n - 3]]);
    let base = i16::from_be_bytes([b[n - 2], b[n - 1]]);
    let kl = foot & 0xFFF;
    let kb = foot & 0x1000 != 0;
    let sup = foot & 0x2000 != 0;
    if n == 16 {
        if !sup || kb || kl != 0 {
            return None;
        }
        return Some(AdcF { at, module: b[4], chan: b[5], rs, ts: lsw as u64, mac: None, toff: None, build: None, wf: vec![], base, kl, kb, sup });
    }
    if n < 36 || b[12] != 0 || b[13] != 0 {
        return None;
    }
    let mac: [u8; 6] = b[14..20].try_into().unwrap();
    if !A16_MACS.iter().any(|m| m.1 == mac) {
        return None;
    }
    if (n - 36) % 2 != 0 {
        return None;
    }
    let wf: Vec<i16> = b[32..n - 4].chunks(2).map(|c| i16::from_be_bytes([c[0], c[1]])).collect();
    if wf.len() < 64 {
        return None;
    }
    if floor_mean64(&wf) != base {
        return None;
    }
    let max = rs as i64 - 2; // a negative maximum rejects everything
    let len = wf.len() as i64;
    if sup {
        if !kb || kl < 34 {
            return None;
        }
        let li = (kl as i64 - 1) * 2 - 2;
        if len <= li || len > max {
            return None;
        }
    } else {
        if kb {
            if kl < 34 {
                return None;
            }
            let li = (kl as i64 - 1) * 2 - 2;
            if len <= li {
                return None;
            }
        } else if kl != 0 {
            return None;
        }
        if len != max {
            return None;
        }
    }
    let msw = u32::from_be_bytes(b[20..24].try_into().unwrap());
    Some(AdcF {
        at,
        module: b[4],
        chan: b[5],
        rs,
        ts: ((msw as u64) << 32) | lsw as u64,
        mac: Some(mac),
        toff: Some(i32::from_be_bytes(b[24..28].try_into().unwrap())),
        build: Some(u32::from_be_bytes(b[28..32].try_into().unwrap())),
        wf,
        base,
        kl,
        kb,
        sup,
    })
}
/// Re-encode decoded fields (footer bits 14-15 are not represented: taken from `hi_bits`).
pub fn adc_reencode(f: &AdcF, hi_bits: u8) -> Vec<u8> {
    let a = Adc {
        accepted_trigger: f.at,
        module_id: f.module,
        channel_byte: f.chan,
        requested_samples: f.rs,
        event_timestamp: f.ts,
        mac: f.mac.unwrap_or([0; 6]),
        trigger_offset: f.toff.unwrap_or(0),
        build_timestamp: f.build.unwrap_or(0),
        waveform: f.wf.clone(),
        keep_last: f.kl,
        keep_bit: f.kb,
        suppression: f.sup,
        baseline: Some(f.base),
        zero_bytes: [0, 0],
        ptype: 1,
        version: 3,
        footer_hi_bits: hi_bits,
    };
    if f.mac.is_none() {
        a.encode_short()
    } else {
        a.encode()
    }
}
/// Fields as reported by the library's accessors.
pub fn adc_lib(b: &[u8]) -> Option<AdcF> {
    use alpha_g_detector::alpha16::{Adc16ChannelId, Adc32ChannelId, AdcV3Packet, ChannelId, ModuleId};
    AdcV3Packet::try_from(b).ok().map(|p| AdcF {
        at: p.accepted_trigger(),
        module: (0..8u8).find(|m| ModuleId::try_from(*m).unwrap() == p.module_id()).unwrap(),
        chan: match p.channel_id() {
            ChannelId::A16(c) => (0..16u8).find(|x| Adc16ChannelId::try_from(*x).unwrap() == c).unwrap(),
            ChannelId::A32(c) => 128 + (0..32u8).find(|x| Adc32ChannelId::try_from(*x).unwrap() == c).unwrap(),
        },
        rs: p.requested_samples() as u16,
        ts: p.event_timestamp(),
        mac: p.board_id().map(|b| b.mac_address()),
        toff: p.trigger_offset(),
        build: p.build_timestamp(),
        wf: p.waveform().to_vec(),
        base: p.suppression_baseline(),
        kl: p.keep_last() as u16,
        kb: p.keep_bit(),
        sup: p.is_suppression_enabled(),
    })
}

// ---------------------------------------------------------------------------- PWB chunk
/// The 71 PadWing boards: (name, MAC). Device id = little-endian u32 of MAC[0..4].
pub const PWB_BOARDS: [(&str, [u8; 6]); 71] = include!("pwb_boards.in");

pub fn pwb_device_id(mac: &[u8; 6]) -> u32 {
    u32::from_le_bytes([mac[0], mac[1], mac[2], mac[3]])
}
#[derive(Debug, PartialEq, Clone)]
pub struct ChunkF {
    pub device_id: u32,
    pub packet_sequence: u32,
    pub channel_sequence: u16,
    pub channel_id: u8,
    pub flags: u8,
    pub chunk_id: u16,
    pub payload: Vec<u8>,
}
pub fn chunk_ref(b: &[u8]) -> Option<ChunkF> {
    let n = b.len();
    if n < 28 || n % 4 != 0 {
        return None;
    }
    let device_id = u32::from_le_bytes(b[0..4].try_into().unwrap());
    if !PWB_BOARDS.iter().any(|(_, m)| pwb_device_id(m) == device_id) {
        return None;
    }
    let channel_id = b[10];
    if channel_id > 3 {
        return None;
    }
    let flags = b[11];
    if flags > 1 {
        return None;
    }
    let plen = u16::from_le_bytes([b[14], b[15]]) as usize;
    // payload + padding = n - 24, padding 0..=3, payload >= 1
    let padded = n - 24;
    if plen > padded || padded - plen > 3 || plen == 0 {
        return None;
    }
    if b[20 + plen..n - 4].iter().any(|x| *x != 0) {
        return None;
    }
    if u32::from_le_bytes(b[16..20].try_into().unwrap()) != !enc::crc32c(&b[0..16]) {
        return None;
    }
    if u32::from_le_bytes(b[n - 4..].try_into().unwrap()) != !enc::crc32c(&b[20..n - 4]) {
        return None;
    }
    Some(ChunkF {
        device_id,
        packet_sequence: u32::from_le_bytes(b[4..8].try_into().unwrap()),
        channel_sequence: u16::from_le_bytes([b[8], b[9]]),
        channel_id,
        flags,
        chunk_id: u16::from_le_bytes([b[12], b[13]]),
        payload: b[20..20 + plen].to_vec(),
    })
}
pub fn chunk_lib_fields(d: &alpha_g_detector::padwing::Chunk) -> ChunkF {
    use alpha_g_detector::padwing::AfterId;
    let chip = ['A', 'B', 'C', 'D'].iter().position(|c| AfterId::try_from(*c).unwrap() == d.after_id()).unwrap() as u8;
    ChunkF {
        device_id: d.board_id().device_id(),
        packet_sequence: d.packet_sequence(),
        channel_sequence: d.channel_sequence(),
        channel_id: chip,
        flags: d.is_end_of_message() as u8,
        chunk_id: d.chunk_id(),
        payload: d.payload().to_vec(),
    }
}
pub fn chunk_encode(f: &ChunkF) -> Vec<u8> {
    enc::Chunk { device_id: f.device_id, packet_sequence: f.packet_sequence, channel_sequence: f.channel_sequence, channel_id: f.channel_id, flags: f.flags, chunk_id: f.chunk_id, payload: f.payload.clone() }.encode()
}

// ---------------------------------------------------------------------------- PWB v2 payload
/// readout index 1..=79 -> kind: 'R' reset (1..=3), 'F' fixed-pattern-noise (16, 29, 54, 67), 'P' pad
pub fn readout_kind(i: u16) -> char {
    match i {
        1..=3 => 'R',
        16 | 29 | 54 | 67 => 'F',
        _ => 'P',
    }
}
pub fn pwb_ref(b: &[u8]) -> Option<Pwb> {
    if b.len() < 56 || b[0] != 2 || !(b'A'..=b'D').contains(&b[1]) || b[2] != 0 || ![0, 1, 3].contains(&b[3]) {
        return None;
    }
    let mac: [u8; 6] = b[4..10].try_into().unwrap();
    if !PWB_BOARDS.iter().any(|(_, m)| *m == mac) || b[18] != 0 || b[19] != 0 {
        return None;
    }
    let u16a = |i: usize| u16::from_le_bytes([b[i], b[i + 1]]);
    let last = u16a(20);
    let rs = u16a(22);
    if last > 511 || rs > 511 {
        return None;
    }
    let mut m = [0u8; 16];
    m[..10].copy_from_slice(&b[24..34]);
    let sent = u128::from_le_bytes(m);
    let mut m2 = [0u8; 16];
    m2[..10].copy_from_slice(&b[34..44]);
    let thr = u128::from_le_bytes(m2);
    if sent >> 79 != 0 || thr >> 79 != 0 {
        return None;
    }
    let n = sent.count_ones() as usize;
    let per = 4 + 2 * rs as usize + if rs % 2 == 1 { 2 } else { 0 };
    if b.len() != 52 + per * n + 4 {
        return None;
    }
    let mut chans = Vec::new();
    let mut off = 52;
    for bit in 0..79 {
        if sent >> bit & 1 == 1 {
            if u16a(off) != bit as u16 + 1 || u16a(off + 2) != rs {
                return None;
            }
            let s: Vec<i16> = (0..rs as usize).map(|k| i16::from_le_bytes([b[off + 4 + 2 * k], b[off + 5 + 2 * k]])).collect();
            if rs % 2 == 1 && (b[off + 4 + 2 * rs as usize] != 0 || b[off + 5 + 2 * rs as usize] != 0) {
                return None;
            }
            chans.push((bit as u16 + 1, s));
            off += per;
        }
    }
    if b[off..] != [0xCC; 4] {
        return None;
    }
    let mut ts = [0u8; 8];
    ts[..6].copy_from_slice(&b[12..18]);
    Some(Pwb {
        version: 2,
        after: b[1],
        compression: 0,
        trigger_source: b[3],
        mac,
        trigger_delay: u16a(10),
        trigger_timestamp: u64::from_le_bytes(ts),
        zero: [0, 0],
        last_sca_cell: last,
        requested_samples: rs,
        sent_mask: sent,
        threshold_mask: thr,
        event_counter: u32::from_le_bytes(b[44..48].try_into().unwrap()),
        fifo_max_depth: u16a(48),
        wdepth: b[50],
        rdepth: b[51],
        channels: chans,
        end_marker: [0xCC; 4],
    })
}
/// Compare every accessor of an accepted library packet with the reference fields.
/// Returns the name of the first accessor that disagrees.
pub fn pwb_accessors_match(p: &alpha_g_detector::padwing::PwbV2Packet, r: &Pwb) -> Result<(), String> {
    use alpha_g_detector::padwing::{AfterId, ChannelId, Compression, Trigger};
    // readout index of a ChannelId by the *independent* kind table + ordinal within the kind
    let ro = |c: ChannelId| -> u16 { (1..=79u16).find(|i| ChannelId::try_from(*i).unwrap() == c).unwrap() };
    let sent: Vec<u16> = p.channels_sent().iter().map(|c| ro(*c)).collect();
    let thr: Vec<u16> = p.channels_over_threshold().iter().map(|c| ro(*c)).collect();
    let es: Vec<u16> = (1..=79).filter(|i| r.sent_mask >> (i - 1) & 1 == 1).collect();
    let et: Vec<u16> = (1..=79).filter(|i| r.threshold_mask >> (i - 1) & 1 == 1).collect();
    if sent != es {
        return Err("channels_sent".into());
    }
    if thr != et {
        return Err("channels_over_threshold".into());
    }
    for i in 1..=79u16 {
        let c = ChannelId::try_from(i).unwrap();
        let kind = match c {
            ChannelId::Reset(_) => 'R',
            ChannelId::Fpn(_) => 'F',
            ChannelId::Pad(_) => 'P',
        };
        if kind != readout_kind(i) {
            return Err(format!("readout index {} kind", i));
        }
        let w = p.waveform_at(c);
        let e = r.channels.iter().find(|x| x.0 == i).map(|x| &x.1[..]);
        if w != e {
            return Err(format!("waveform_at readout {}", i));
        }
    }
    let chk = |ok: bool, name: &str| if ok { Ok(()) } else { Err(name.to_string()) };
    chk(p.requested_samples() == r.requested_samples as usize, "requested_samples")?;
    chk(p.last_sca_cell() == r.last_sca_cell, "last_sca_cell")?;
    chk(p.trigger_delay() == r.trigger_delay, "trigger_delay")?;
    chk(p.trigger_timestamp() == r.trigger_timestamp, "trigger_timestamp")?;
    chk(p.event_counter() == r.event_counter, "event_counter")?;
    chk(p.fifo_max_depth() == r.fifo_max_depth, "fifo_max_depth")?;
    chk(p.event_descriptor_write_depth() == r.wdepth, "event_descriptor_write_depth")?;
    chk(p.event_descriptor_read_depth() == r.rdepth, "event_descriptor_read_depth")?;
    chk(p.board_id().mac_address() == r.mac, "board_id")?;
    chk(p.after_id() == AfterId::try_from(r.after as char).unwrap(), "after_id")?;
    chk(matches!(p.compression(), Compression::Raw), "compression")?;
    let trig_ok = match p.trigger_source() {
        Trigger::External => r.trigger_source == 0,
        Trigger::Manual => r.trigger_source == 1,
        Trigger::InternalPulse => r.trigger_source == 3,
    };
    chk(trig_ok, "trigger_source")?;
    Ok(())
}

// ---------------------------------------------------------------------------- TRG v3
fn w(b: &[u8], i: usize) -> u32 {
    u32::from_le_bytes(b[4 * i..4 * i + 4].try_into().unwrap())
}
pub fn trg_ref(b: &[u8]) -> bool {
    if b.len() != 80 {
        return false;
    }
    let (h, f, out, inp, dr, sc) = (w(b, 1), w(b, 19), w(b, 3), w(b, 4), w(b, 10), w(b, 11));
    w(b, 0) >> 31 == 0
        && h >> 28 == 8
        && f >> 28 == 0xE
        && h & 0xFFFFFFF == out & 0xFFFFFFF
        && f & 0xFFFFFFF == out & 0xFFFFFFF
        && w(b, 9) & 0x7FFF0000 == 0
        && w(b, 12) == 0
        && w(b, 13) >> 24 == 0
        && w(b, 16) >> 8 == 0
        && w(b, 17) >> 8 == 0
        && out <= sc
        && sc <= dr
        && dr <= inp
}
pub fn trg_reencode(p: &alpha_g_detector::trigger::TrgV3Packet) -> Vec<u8> {
    let mut t = Trg::simple(p.timestamp(), p.output_counter());
    t.udp = p.udp_counter();
    t.input = p.input_counter();
    t.pulser = p.pulser_counter();
    t.trigger_bitmap = p.trigger_bitmap();
    t.nim = p.nim_bitmap();
    t.esata = p.esata_bitmap();
    t.mlu = p.satisfied_mlu();
    t.aw16_prompt = p.aw16_prompt();
    t.drift = p.drift_veto_counter();
    t.scaledown = p.scaledown_counter();
    t.aw16_mult = p.aw16_multiplicity();
    t.aw16_bus = p.aw16_bus();
    t.bsc64_bus = p.bsc64_bus();
    t.bsc64_mult = p.bsc64_multiplicity();
    t.latch = p.coincidence_latch();
    t.fw = p.firmware_revision();
    t.encode()
}
