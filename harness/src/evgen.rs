//! Event-level generators on *calibrated* signals (what MainEvent stores) and the metamorphic
//! transformations used by C13 / C17 / C11: rotation by pad columns, row mirror, scaling.
use crate::core::Rng;
use crate::sim::{self, Model, NF};
use alpha_g_physics::Avalanche;
use std::collections::BTreeMap;
use std::f64::consts::PI;
use uom::si::angle::radian;
use uom::si::length::meter;
use uom::si::time::second;

pub type Wires = Vec<(usize, Vec<f64>)>;
pub type Pads = Vec<(usize, usize, Vec<f64>)>;

/// Forward-model event -> calibrated signals (delay samples removed), optional rounded noise.
pub fn sim_event(m: &Model, rng: &mut Rng, noise: f64) -> (Wires, Pads, sim::EventP) {
    let ev = sim::random_event(rng);
    let sg = sim::signals(m, &ev);
    let f = |s: &Vec<f64>, rng: &mut Rng| -> Vec<f64> { s[100..].iter().map(|x| if noise > 0.0 { (x + noise * rng.gauss()).round() } else { x.round() }).collect() };
    let wires: Wires = sg.wires.iter().map(|(w, s)| (*w, f(s, rng))).collect();
    let pads: Pads = sg.pads.iter().map(|((c, r), s)| (*c, *r, f(s, rng))).collect();
    (wires, pads, ev)
}

pub fn wire_to_column(w: usize) -> usize {
    ((w + 256 - 8) % 256) / 8
}

/// Random hit pattern: `nh` avalanches on random wires / times with the documented induction on the +-4
/// neighbouring wires, pad charge on 3..7 rows of the geometrically matching column.
/// `occupancy`: which wires carry data (others are dropped even if induced on).
pub fn random_hits(m: &Model, rng: &mut Rng, occ: &[bool; 256], nh: usize, len: usize, noise: f64, round: bool) -> (Wires, Pads) {
    let mut w: BTreeMap<usize, Vec<f64>> = BTreeMap::new();
    let mut p: BTreeMap<(usize, usize), Vec<f64>> = BTreeMap::new();
    for i in 0..256 {
        if occ[i] {
            w.insert(i, vec![0.0; len]);
        }
    }
    let occupied: Vec<usize> = (0..256).filter(|i| occ[*i]).collect();
    if occupied.is_empty() {
        return (Vec::new(), Vec::new());
    }
    for _ in 0..nh {
        let wire = *rng.pick(&occupied);
        let k = rng.usize(len.saturating_sub(40).max(1));
        let a = 10f64.powf(rng.range(1.3, 3.0));
        for d in -4i32..=4 {
            let ww = (wire as i32 + d).rem_euclid(256) as usize;
            if let Some(sig) = w.get_mut(&ww) {
                let f = NF[d.unsigned_abs() as usize];
                for (j, r) in m.wr.iter().enumerate() {
                    if k + j < len {
                        sig[k + j] += a * f * r;
                    }
                }
            }
        }
        let col = wire_to_column(wire);
        // one hit in eight sits on the first / last usable pad rows (centre row 1 or 574, 3-row cluster)
        let edge = rng.below(8) == 0;
        let row0 = if edge { *rng.pick(&[1usize, 2, 573, 574]) } else { 3 + rng.usize(570) };
        let z_off = if edge { rng.range(-0.2, 0.2) } else { rng.range(-0.5, 0.5) };
        let sigma = rng.range(0.7, 1.5);
        let pa = a * rng.range(3.0, 8.0);
        let span = if edge { 1 } else { 3 };
        for dr in -span..=span {
            let row = row0 as i32 + dr;
            if !(0..576).contains(&row) {
                continue;
            }
            let wgt = (-((dr as f64 - z_off).powi(2)) / (2.0 * sigma * sigma)).exp();
            let sig = p.entry((col, row as usize)).or_insert_with(|| vec![0.0; len]);
            for (j, r) in m.pr.iter().enumerate() {
                if k + j < len {
                    sig[k + j] += pa * wgt * r;
                }
            }
        }
    }
    let fin = |s: &mut Vec<f64>, rng: &mut Rng| {
        for x in s.iter_mut() {
            *x += noise * rng.gauss();
            if round {
                *x = x.round();
            }
        }
    };
    let mut wires: Wires = w.into_iter().collect();
    let mut pads: Pads = p.into_iter().map(|((c, r), s)| (c, r, s)).collect();
    for (_, s) in wires.iter_mut() {
        fin(s, rng);
    }
    for (_, _, s) in pads.iter_mut() {
        fin(s, rng);
    }
    (wires, pads)
}

/// A very busy event: `ncols` adjacent pad columns, in each of them `nt` firing times 12 bins apart, at each time
/// `per` of the 8 wires of the column and `per` separate 3-row pad clusters fire: about ncols x nt x per avalanches.
pub fn busy_event(m: &Model, rng: &mut Rng, ncols: usize, nt: usize, per: usize) -> (Wires, Pads) {
    let len = 10 + 12 * nt + 40;
    let c0 = rng.usize(32);
    let mut w: BTreeMap<usize, Vec<f64>> = BTreeMap::new();
    let mut p: BTreeMap<(usize, usize), Vec<f64>> = BTreeMap::new();
    for c in 0..ncols {
        let col = (c0 + c) % 32;
        for k in 0..8 {
            w.insert((col * 8 + 8 + k) % 256, vec![0.0; len]);
        }
    }
    for c in 0..ncols {
        let col = (c0 + c) % 32;
        // every column has its clusters on rows of its own
        let row_base = 20 + rng.usize(400);
        for j in 0..nt {
            let t = 10 + 12 * j;
            let mut ws: Vec<usize> = (0..8).collect();
            rng.shuffle(&mut ws);
            for (q, &k) in ws[..per.min(8)].iter().enumerate() {
                let wire = (col * 8 + 8 + k) % 256;
                let a = rng.range(300.0, 1000.0).round();
                for d in -4i32..=4 {
                    let ww = (wire as i32 + d).rem_euclid(256) as usize;
                    if let Some(sig) = w.get_mut(&ww) {
                        let f = NF[d.unsigned_abs() as usize];
                        for (jj, r) in m.wr.iter().enumerate() {
                            if t + jj < len {
                                sig[t + jj] += a * f * r;
                            }
                        }
                    }
                }
                let pa = (a * rng.range(3.0, 8.0)).round();
                let row0 = row_base + 12 * q;
                for dr in -1i32..=1 {
                    let wgt = [0.45, 1.0, 0.4][(dr + 1) as usize];
                    let sig = p.entry((col, (row0 as i32 + dr) as usize)).or_insert_with(|| vec![0.0; len]);
                    for (jj, r) in m.pr.iter().enumerate() {
                        if t + jj < len {
                            sig[t + jj] += pa * wgt * r;
                        }
                    }
                }
            }
        }
    }
    (w.into_iter().collect(), p.into_iter().map(|((c, r), s)| (c, r, s)).collect())
}

pub fn occupancy(rng: &mut Rng, mode: u64) -> [bool; 256] {
    let mut occ = [false; 256];
    match mode {
        0 => {
            for o in occ.iter_mut() {
                *o = rng.bool();
            }
        }
        1 => {
            // one block, any length, any start (seam-straddling included)
            let s = rng.usize(256);
            let l = 1 + rng.usize(255);
            for i in 0..l {
                occ[(s + i) % 256] = true;
            }
        }
        2 => occ = [true; 256],
        3 => {
            occ = [true; 256];
            for _ in 0..1 + rng.usize(4) {
                occ[rng.usize(256)] = false;
            }
        }
        4 => {
            // block touching / straddling the seam
            let l = 1 + rng.usize(40);
            let s = 256 - rng.usize(l + 1);
            for i in 0..l {
                occ[(s + i) % 256] = true;
            }
        }
        _ => {
            for _ in 0..1 + rng.usize(6) {
                let s = rng.usize(256);
                let l = 1 + rng.usize(20);
                for i in 0..l {
                    occ[(s + i) % 256] = true;
                }
            }
        }
    }
    occ
}

pub fn rotate(wires: &Wires, pads: &Pads, k: usize) -> (Wires, Pads) {
    (wires.iter().map(|(w, s)| ((*w + 8 * k) % 256, s.clone())).collect(), pads.iter().map(|(c, r, s)| ((*c + k) % 32, *r, s.clone())).collect())
}
pub fn mirror(pads: &Pads) -> Pads {
    pads.iter().map(|(c, r, s)| (*c, 575 - *r, s.clone())).collect()
}
pub fn scale(wires: &Wires, pads: &Pads, f: f64) -> (Wires, Pads) {
    (wires.iter().map(|(w, s)| (*w, s.iter().map(|x| x * f).collect())).collect(), pads.iter().map(|(c, r, s)| (*c, *r, s.iter().map(|x| x * f).collect())).collect())
}
/// wire index of an avalanche recovered from its phi
pub fn wire_of(a: &Avalanche) -> usize {
    let pitch = 2.0 * PI / 256.0;
    (((a.phi.get::<radian>() / pitch - 0.5).round() as i64 + 8).rem_euclid(256)) as usize
}
/// (t bits, wire, wire-amplitude bits, pad-amplitude bits, z bits)
pub fn key(a: &Avalanche) -> (u64, usize, u64, u64, u64) {
    (a.t.get::<second>().to_bits(), wire_of(a), a.wire_amplitude.to_bits(), a.pad_amplitude.to_bits(), a.z.get::<meter>().to_bits())
}
pub fn touches_seam(wires: &Wires) -> bool {
    let mut occ = [false; 256];
    for (w, _) in wires {
        occ[*w] = true;
    }
    occ[255] || occ[0]
}
