//! Independent encoders for the DAQ packet formats (written from the documented layouts).
pub const A16_MACS: [(&str, [u8; 6]); 8] = [
    ("09", [216, 128, 57, 104, 55, 76]), ("10", [216, 128, 57, 104, 170, 37]), ("11", [216, 128, 57, 104, 172, 127]),
    ("12", [216, 128, 57, 104, 79, 167]), ("13", [216, 128, 57, 104, 202, 166]), ("14", [216, 128, 57, 104, 142, 130]),
    ("16", [216, 128, 57, 104, 111, 162]), ("18", [216, 128, 57, 104, 142, 82]),
];
#[derive(Clone, Debug)]
pub struct Adc {
    pub accepted_trigger: u16, pub module_id: u8, pub channel_byte: u8, pub requested_samples: u16,
    pub event_timestamp: u64, pub mac: [u8; 6], pub trigger_offset: i32, pub build_timestamp: u32,
    pub waveform: Vec<i16>, pub keep_last: u16, pub keep_bit: bool, pub suppression: bool, pub baseline: Option<i16>,
    pub zero_bytes: [u8; 2], pub ptype: u8, pub version: u8, pub footer_hi_bits: u8,
}
pub fn floor_mean64(w: &[i16]) -> i16 {
    let s: i64 = w.iter().take(64).map(|x| *x as i64).sum();
    s.div_euclid(64) as i16
}
impl Adc {
    pub fn simple(mac: [u8; 6], adc32_channel: u8, waveform: Vec<i16>) -> Adc {
        let n = (waveform.len() as u16).wrapping_add(2);
        Adc { accepted_trigger: 1, module_id: 0, channel_byte: 128 + adc32_channel, requested_samples: n, event_timestamp: 0x0000_0001_0000_0002, mac,
            trigger_offset: -10, build_timestamp: 0x6000_0000, waveform, keep_last: 0, keep_bit: false, suppression: false, baseline: None, zero_bytes: [0, 0], ptype: 1, version: 3, footer_hi_bits: 0 }
    }
    pub fn footer(&self) -> [u8; 4] {
        let f: u16 = (self.keep_last & 0xFFF) | ((self.keep_bit as u16) << 12) | ((self.suppression as u16) << 13) | ((self.footer_hi_bits as u16 & 3) << 14);
        let b = self.baseline.unwrap_or_else(|| if self.waveform.len() >= 64 { floor_mean64(&self.waveform) } else { 0 });
        let mut o = [0u8; 4]; o[..2].copy_from_slice(&f.to_be_bytes()); o[2..].copy_from_slice(&b.to_be_bytes()); o
    }
    pub fn encode_short(&self) -> Vec<u8> {
        let mut v = vec![self.ptype, self.version]; v.extend(self.accepted_trigger.to_be_bytes()); v.push(self.module_id); v.push(self.channel_byte);
        v.extend(self.requested_samples.to_be_bytes()); v.extend(((self.event_timestamp & 0xFFFF_FFFF) as u32).to_be_bytes()); v.extend(self.footer()); v
    }
    pub fn encode(&self) -> Vec<u8> {
        let mut v = vec![self.ptype, self.version]; v.extend(self.accepted_trigger.to_be_bytes()); v.push(self.module_id); v.push(self.channel_byte);
        v.extend(self.requested_samples.to_be_bytes()); v.extend(((self.event_timestamp & 0xFFFF_FFFF) as u32).to_be_bytes());
        v.extend(self.zero_bytes); v.extend(self.mac); v.extend(((self.event_timestamp >> 32) as u32).to_be_bytes());
        v.extend(self.trigger_offset.to_be_bytes()); v.extend(self.build_timestamp.to_be_bytes());
        for s in &self.waveform { v.extend(s.to_be_bytes()); }
        v.extend(self.footer()); v
    }
}
/// CRC-32C (Castagnoli), reflected polynomial 0x82F63B78, written here independently of the
/// `crc32c` crate the library uses; table generated from the polynomial at first use.
pub fn crc32c(data: &[u8]) -> u32 {
    static TABLE: std::sync::OnceLock<[u32; 256]> = std::sync::OnceLock::new();
    let t = TABLE.get_or_init(|| {
        let mut t = [0u32; 256];
        for i in 0..256u32 {
            let mut c = i;
            for _ in 0..8 {
                c = if c & 1 == 1 { (c >> 1) ^ 0x82F63B78 } else { c >> 1 };
            }
            t[i as usize] = c;
        }
        t
    });
    let mut crc: u32 = !0;
    for b in data {
        crc = t[((crc ^ *b as u32) & 0xFF) as usize] ^ (crc >> 8);
    }
    !crc
}
#[derive(Clone, Debug)]
pub struct Chunk { pub device_id: u32, pub packet_sequence: u32, pub channel_sequence: u16, pub channel_id: u8, pub flags: u8, pub chunk_id: u16, pub payload: Vec<u8> }
impl Chunk {
    pub fn encode(&self) -> Vec<u8> {
        let mut v = Vec::new(); v.extend(self.device_id.to_le_bytes()); v.extend(self.packet_sequence.to_le_bytes()); v.extend(self.channel_sequence.to_le_bytes());
        v.push(self.channel_id); v.push(self.flags); v.extend(self.chunk_id.to_le_bytes()); v.extend((self.payload.len() as u16).to_le_bytes());
        let h = !crc32c(&v[..16]); v.extend(h.to_le_bytes());
        let start = v.len(); v.extend(&self.payload); while (v.len() - start) % 4 != 0 { v.push(0); }
        let p = !crc32c(&v[start..]); v.extend(p.to_le_bytes()); v
    }
}
#[derive(Clone, Debug)]
pub struct Pwb {
    pub version: u8, pub after: u8, pub compression: u8, pub trigger_source: u8, pub mac: [u8; 6], pub trigger_delay: u16, pub trigger_timestamp: u64 /*48 bit*/, pub zero: [u8; 2],
    pub last_sca_cell: u16, pub requested_samples: u16, pub sent_mask: u128, pub threshold_mask: u128, pub event_counter: u32, pub fifo_max_depth: u16, pub wdepth: u8, pub rdepth: u8,
    /// (readout index 1..=79, samples) in ascending readout order
    pub channels: Vec<(u16, Vec<i16>)>, pub end_marker: [u8; 4],
}
impl Pwb {
    pub fn new(after: char, mac: [u8; 6], requested_samples: u16, channels: Vec<(u16, Vec<i16>)>) -> Pwb {
        let mut m = 0u128; for (r, _) in &channels { m |= 1u128 << (r - 1); }
        Pwb { version: 2, after: after as u8, compression: 0, trigger_source: 0, mac, trigger_delay: 7, trigger_timestamp: 0x0000_0102_0304_0506, zero: [0, 0], last_sca_cell: 300, requested_samples, sent_mask: m, threshold_mask: m, event_counter: 9, fifo_max_depth: 3, wdepth: 1, rdepth: 2, channels, end_marker: [0xCC; 4] }
    }
    pub fn encode(&self) -> Vec<u8> {
        let mut v = vec![self.version, self.after, self.compression, self.trigger_source]; v.extend(self.mac); v.extend(self.trigger_delay.to_le_bytes());
        v.extend(&self.trigger_timestamp.to_le_bytes()[..6]); v.extend(self.zero); v.extend(self.last_sca_cell.to_le_bytes()); v.extend(self.requested_samples.to_le_bytes());
        v.extend(&self.sent_mask.to_le_bytes()[..10]); v.extend(&self.threshold_mask.to_le_bytes()[..10]); v.extend(self.event_counter.to_le_bytes()); v.extend(self.fifo_max_depth.to_le_bytes()); v.push(self.wdepth); v.push(self.rdepth);
        for (r, s) in &self.channels { v.extend(r.to_le_bytes()); v.extend((s.len() as u16).to_le_bytes()); for x in s { v.extend(x.to_le_bytes()); } if s.len() % 2 == 1 { v.extend([0, 0]); } }
        v.extend(self.end_marker); v
    }
    pub fn chunks(&self, device_id: u32, chip: u8, chunk_size: usize) -> Vec<Chunk> {
        let p = self.encode(); let n = (p.len() + chunk_size - 1) / chunk_size;
        p.chunks(chunk_size).enumerate().map(|(i, c)| Chunk { device_id, packet_sequence: 100 + i as u32, channel_sequence: 50 + i as u16, channel_id: chip, flags: (i + 1 == n) as u8, chunk_id: i as u16, payload: c.to_vec() }).collect()
    }
}
#[derive(Clone, Debug)]
pub struct Trg { pub udp: u32, pub header_hi: u32, pub header_lo: Option<u32>, pub timestamp: u32, pub output: u32, pub input: u32, pub pulser: u32, pub trigger_bitmap: u32, pub nim: u32, pub esata: u32,
    pub mlu: bool, pub aw16_prompt: u16, pub w36_reserved: u32, pub drift: u32, pub scaledown: u32, pub w48: u32, pub aw16_mult: u8, pub aw16_bus: u16, pub w52_hi: u8, pub bsc64_bus: u64, pub bsc64_mult: u8, pub w64_hi: u32, pub latch: u8, pub w68_hi: u32, pub fw: u32, pub footer_hi: u32, pub footer_lo: Option<u32> }
impl Trg {
    pub fn simple(timestamp: u32, output: u32) -> Trg { Trg { udp: 5, header_hi: 0x8, header_lo: None, timestamp, output, input: output.saturating_add(3), pulser: 1, trigger_bitmap: 2, nim: 3, esata: 4, mlu: true, aw16_prompt: 6, w36_reserved: 0, drift: output.saturating_add(2), scaledown: output.saturating_add(1), w48: 0, aw16_mult: 2, aw16_bus: 0x0101, w52_hi: 0, bsc64_bus: 0xAA, bsc64_mult: 3, w64_hi: 0, latch: 1, w68_hi: 0, fw: 0x12345678, footer_hi: 0xE, footer_lo: None } }
    pub fn encode(&self) -> Vec<u8> {
        let mut v = Vec::new(); let lo = self.output & 0x0FFF_FFFF;
        v.extend(self.udp.to_le_bytes()); v.extend(((self.header_hi << 28) | self.header_lo.unwrap_or(lo)).to_le_bytes()); v.extend(self.timestamp.to_le_bytes()); v.extend(self.output.to_le_bytes()); v.extend(self.input.to_le_bytes());
        v.extend(self.pulser.to_le_bytes()); v.extend(self.trigger_bitmap.to_le_bytes()); v.extend(self.nim.to_le_bytes()); v.extend(self.esata.to_le_bytes());
        v.extend((((self.mlu as u32) << 31) | (self.w36_reserved & 0x7FFF_0000) | self.aw16_prompt as u32).to_le_bytes()); v.extend(self.drift.to_le_bytes()); v.extend(self.scaledown.to_le_bytes()); v.extend(self.w48.to_le_bytes());
        v.extend((((self.w52_hi as u32) << 24) | ((self.aw16_mult as u32) << 16) | self.aw16_bus as u32).to_le_bytes()); v.extend(self.bsc64_bus.to_le_bytes()); v.extend(((self.w64_hi & 0xFFFF_FF00) | self.bsc64_mult as u32).to_le_bytes());
        v.extend(((self.w68_hi & 0xFFFF_FF00) | self.latch as u32).to_le_bytes()); v.extend(self.fw.to_le_bytes()); v.extend(((self.footer_hi << 28) | self.footer_lo.unwrap_or(lo)).to_le_bytes()); v
    }
}

fn crc_tables() -> ([u32; 256], [usize; 256]) {
    let mut t = [0u32; 256];
    for i in 0..256u32 {
        let mut c = i;
        for _ in 0..8 {
            c = if c & 1 == 1 { (c >> 1) ^ 0x82F63B78 } else { c >> 1 };
        }
        t[i as usize] = c;
    }
    let mut rev = [0usize; 256];
    for (i, e) in t.iter().enumerate() {
        rev[(e >> 24) as usize] = i;
    }
    (t, rev)
}
/// CRC register (not inverted) after feeding `bytes`, starting from `reg`.
pub fn crc_reg_after(mut reg: u32, bytes: &[u8]) -> u32 {
    let (t, _) = crc_tables();
    for b in bytes {
        reg = t[((reg ^ *b as u32) & 0xFF) as usize] ^ (reg >> 8);
    }
    reg
}
/// CRC register before `bytes` were fed, given the register after them (the CRC is invertible).
pub fn crc_reg_before(mut reg: u32, bytes: &[u8]) -> u32 {
    let (t, rev) = crc_tables();
    for b in bytes.iter().rev() {
        let idx = rev[(reg >> 24) as usize];
        reg = ((reg ^ t[idx]) << 8) | (idx as u32 ^ *b as u32);
    }
    reg
}
/// Four bytes that take the CRC register from `start` to `want`.
pub fn crc_forge_bytes(start: u32, want: u32) -> [u8; 4] {
    let (t, rev) = crc_tables();
    let mut reg = want;
    let mut idx = [0usize; 4];
    for k in (0..4).rev() {
        let i = rev[(reg >> 24) as usize];
        idx[k] = i;
        reg = (reg ^ t[i]) << 8;
    }
    let mut r = start;
    let mut out = [0u8; 4];
    for k in 0..4 {
        out[k] = (idx[k] as u32 ^ (r & 0xFF)) as u8;
        r = t[idx[k]] ^ (r >> 8);
    }
    out
}
/// Four bytes `s` such that crc32c(prefix ++ s) == target.
pub fn crc32c_forge_suffix(prefix: &[u8], target: u32) -> [u8; 4] {
    crc_forge_bytes(crc_reg_after(!0, prefix), !target)
}
/// Four bytes `m` such that crc32c(head ++ m ++ tail) == target.
pub fn crc32c_forge_middle(head: &[u8], tail: &[u8], target: u32) -> [u8; 4] {
    crc_forge_bytes(crc_reg_after(!0, head), crc_reg_before(!target, tail))
}
