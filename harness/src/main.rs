use agv::core::*;
use std::path::PathBuf;

fn usage() -> ! {
    eprintln!("usage: agv <property id> [--tier quick|thorough] [--seed N] [--replay file]\n       agv list");
    std::process::exit(2)
}

fn main() {
    let args: Vec<String> = std::env::args().skip(1).collect();
    if args.is_empty() {
        usage();
    }
    if args[0] == "list" {
        for p in agv::props::all() {
            println!("{}", p.id);
        }
        return;
    }
    let id = args[0].clone();
    let Some(prop) = agv::props::all().into_iter().find(|p| p.id == id) else {
        eprintln!("unknown property {}", id);
        std::process::exit(2)
    };
    let mut tier = match std::env::var("VERIF_TIER").as_deref() {
        Ok("thorough") => Tier::Thorough,
        _ => Tier::Quick,
    };
    let mut seed: u64 = std::env::var("VERIF_SEED").ok().and_then(|s| s.trim().parse().ok()).unwrap_or(1);
    let (mut child, mut trace) = (false, false);
    let (mut shard, mut nshards) = (0usize, 1usize);
    let mut profile = "release".to_string();
    let mut out = PathBuf::from("/dev/null");
    let mut only = None;
    let mut replay = None;
    let mut i = 1;
    while i < args.len() {
        match args[i].as_str() {
            "--tier" => {
                i += 1;
                tier = match args.get(i).map(|s| s.as_str()) {
                    Some("quick") => Tier::Quick,
                    Some("thorough") => Tier::Thorough,
                    _ => usage(),
                }
            }
            "--seed" => {
                i += 1;
                seed = args.get(i).and_then(|s| s.parse().ok()).unwrap_or_else(|| usage());
            }
            "--child" => child = true,
            "--trace" => trace = true,
            "--shard" => {
                i += 1;
                let (a, b) = args[i].split_once('/').unwrap_or_else(|| usage());
                shard = a.parse().unwrap();
                nshards = b.parse().unwrap();
            }
            "--profile" => {
                i += 1;
                profile = args[i].clone();
            }
            "--out" => {
                i += 1;
                out = PathBuf::from(&args[i]);
            }
            "--only" => {
                only = Some((args[i + 1].clone(), args[i + 2].parse().unwrap()));
                i += 2;
            }
            "--replay" => {
                i += 1;
                replay = Some(PathBuf::from(&args[i]));
            }
            _ => usage(),
        }
        i += 1;
    }
    let code = if child {
        child_main(&prop, tier, seed, shard, nshards, &profile, &out, only, trace)
    } else {
        driver_main(&prop, &DriverOpts { tier, seed, replay })
    };
    std::process::exit(code);
}
