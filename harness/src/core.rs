//! Core of the monitoring framework: seeded PRNG, per-case context, panic monitor, progress
//! watchdog, child-shard driver, evidence writer and known-findings handling.
//!
//! Verdicts are three-valued:
//!   exit 0  held on everything observed (KNOWN-FINDING lines may have been printed)
//!   exit 1  violated: one `VIOLATION property=<id> replay=<path>` line per recorded violation
//!   exit 2  inconclusive: harness error, watchdog, or a monitor that observed too little
use serde_json::{json, Value};
use std::cell::RefCell;
use std::collections::{BTreeMap, HashSet};
use std::io::Write;
use std::panic::{catch_unwind, AssertUnwindSafe};
use std::path::{Path, PathBuf};
use std::sync::atomic::{AtomicU64, Ordering};
use std::time::{Duration, Instant};

/// Roots. `/verif` and `/repo` unless overridden (AGV_VERIF / AGV_REPO) by the self-test tooling, which runs
/// the same machinery on a scratch copy so that seeded changes never touch /repo itself.
pub fn verif_root() -> String {
    std::env::var("AGV_VERIF").unwrap_or_else(|_| "/verif".to_string())
}
pub fn repo_root() -> String {
    std::env::var("AGV_REPO").unwrap_or_else(|_| "/repo".to_string())
}

// ------------------------------------------------------------------------------------------
// PRNG (SplitMix64)
#[derive(Clone)]
pub struct Rng(pub u64);
impl Rng {
    pub fn new(seed: u64) -> Self {
        Rng(seed.wrapping_mul(0x9E3779B97F4A7C15) ^ 0xD1B54A32D192ED03)
    }
    pub fn next(&mut self) -> u64 {
        self.0 = self.0.wrapping_add(0x9E3779B97F4A7C15);
        let mut z = self.0;
        z = (z ^ (z >> 30)).wrapping_mul(0xBF58476D1CE4E5B9);
        z = (z ^ (z >> 27)).wrapping_mul(0x94D049BB133111EB);
        z ^ (z >> 31)
    }
    pub fn f(&mut self) -> f64 {
        (self.next() >> 11) as f64 / (1u64 << 53) as f64
    }
    pub fn range(&mut self, a: f64, b: f64) -> f64 {
        a + (b - a) * self.f()
    }
    pub fn below(&mut self, n: u64) -> u64 {
        if n == 0 {
            0
        } else {
            self.next() % n
        }
    }
    pub fn usize(&mut self, n: usize) -> usize {
        self.below(n as u64) as usize
    }
    /// inclusive integer range
    pub fn int(&mut self, a: i64, b: i64) -> i64 {
        a + self.below((b - a + 1) as u64) as i64
    }
    pub fn bool(&mut self) -> bool {
        self.next() & 1 == 1
    }
    pub fn chance(&mut self, p: f64) -> bool {
        self.f() < p
    }
    pub fn gauss(&mut self) -> f64 {
        let u1 = self.f().max(1e-300);
        let u2 = self.f();
        (-2.0 * u1.ln()).sqrt() * (2.0 * std::f64::consts::PI * u2).cos()
    }
    pub fn pick<'a, T>(&mut self, v: &'a [T]) -> &'a T {
        &v[self.usize(v.len())]
    }
    pub fn bytes(&mut self, n: usize) -> Vec<u8> {
        let mut v = Vec::with_capacity(n + 8);
        while v.len() < n {
            v.extend(self.next().to_le_bytes());
        }
        v.truncate(n);
        v
    }
    pub fn shuffle<T>(&mut self, v: &mut [T]) {
        for i in (1..v.len()).rev() {
            let j = self.usize(i + 1);
            v.swap(i, j);
        }
    }
    pub fn log_uniform(&mut self, lo: f64, hi: f64) -> f64 {
        (self.range(lo.ln(), hi.ln())).exp()
    }
}

pub fn fnv(data: &[u8]) -> u64 {
    let mut h: u64 = 0xcbf29ce484222325;
    for b in data {
        h ^= *b as u64;
        h = h.wrapping_mul(0x100000001b3);
    }
    h
}
pub fn fnv_str(s: &str) -> u64 {
    fnv(s.as_bytes())
}
pub struct Digest(pub u64);
impl Digest {
    pub fn new() -> Self {
        Digest(0xcbf29ce484222325)
    }
    pub fn u64(&mut self, v: u64) {
        for b in v.to_le_bytes() {
            self.0 ^= b as u64;
            self.0 = self.0.wrapping_mul(0x100000001b3);
        }
    }
    pub fn f64(&mut self, v: f64) {
        self.u64(v.to_bits())
    }
    pub fn bytes(&mut self, v: &[u8]) {
        for b in v {
            self.0 ^= *b as u64;
            self.0 = self.0.wrapping_mul(0x100000001b3);
        }
    }
}
pub fn hex(b: &[u8]) -> String {
    let mut s = String::with_capacity(b.len() * 2);
    for x in b {
        s.push_str(&format!("{:02x}", x));
    }
    s
}
pub fn hex_short(b: &[u8]) -> String {
    if b.len() <= 96 {
        hex(b)
    } else {
        format!("{}..({} bytes)..{}", hex(&b[..48]), b.len(), hex(&b[b.len() - 16..]))
    }
}
pub fn unhex(s: &str) -> Vec<u8> {
    (0..s.len() / 2).map(|i| u8::from_str_radix(&s[2 * i..2 * i + 2], 16).unwrap()).collect()
}

// ------------------------------------------------------------------------------------------
// Panic monitor
#[derive(Clone, Debug)]
pub struct PanicInfo {
    pub message: String,
    pub location: String,
}
thread_local! {
    static IN_GUARD: RefCell<u32> = RefCell::new(0);
    static LAST_PANIC: RefCell<Option<PanicInfo>> = RefCell::new(None);
}
pub fn install_panic_hook() {
    let default = std::panic::take_hook();
    std::panic::set_hook(Box::new(move |info| {
        let guarded = IN_GUARD.with(|g| *g.borrow() > 0);
        let message = if let Some(s) = info.payload().downcast_ref::<&str>() {
            s.to_string()
        } else if let Some(s) = info.payload().downcast_ref::<String>() {
            s.clone()
        } else {
            "<non-string panic>".to_string()
        };
        let location = info.location().map(|l| format!("{}:{}", l.file(), l.line())).unwrap_or_default();
        if guarded {
            LAST_PANIC.with(|p| *p.borrow_mut() = Some(PanicInfo { message, location }));
        } else {
            default(info);
        }
    }));
}
/// Run library code under the panic monitor.
pub fn guard<T>(f: impl FnOnce() -> T) -> Result<T, PanicInfo> {
    IN_GUARD.with(|g| *g.borrow_mut() += 1);
    let r = catch_unwind(AssertUnwindSafe(f));
    IN_GUARD.with(|g| *g.borrow_mut() -= 1);
    r.map_err(|_| {
        LAST_PANIC
            .with(|p| p.borrow_mut().take())
            .unwrap_or(PanicInfo { message: "<unknown>".into(), location: String::new() })
    })
}

/// Copy of `b` placed at an odd address (a decoder must not care how its input slice is aligned).
pub struct Misaligned {
    buf: Vec<u8>,
    off: usize,
    len: usize,
}
impl Misaligned {
    pub fn new(b: &[u8]) -> Misaligned {
        let mut buf = vec![0u8; b.len() + 2];
        let off = if (buf.as_ptr() as usize) % 2 == 0 { 1 } else { 0 };
        buf[off..off + b.len()].copy_from_slice(b);
        Misaligned { buf, off, len: b.len() }
    }
    pub fn slice(&self) -> &[u8] {
        &self.buf[self.off..self.off + self.len]
    }
}

/// Evaluate `f` in a brand-new thread (fresh thread-local state, no call history). Used by the
/// history-independence monitors: a pure function must give the same result whatever was called before it.
pub fn fresh_thread<T: Send>(f: impl FnOnce() -> T + Send) -> Result<T, PanicInfo> {
    std::thread::scope(|s| {
        std::thread::Builder::new()
            .stack_size(128 << 20)
            .spawn_scoped(s, move || guard(f))
            .expect("spawn")
            .join()
            .unwrap_or_else(|_| Err(PanicInfo { message: "thread died".into(), location: String::new() }))
    })
}

// ------------------------------------------------------------------------------------------
#[derive(Clone, Copy, PartialEq, Eq, Debug)]
pub enum Tier {
    Quick,
    Thorough,
}
impl Tier {
    pub fn name(self) -> &'static str {
        match self {
            Tier::Quick => "quick",
            Tier::Thorough => "thorough",
        }
    }
    /// pick(quick, thorough)
    pub fn pick<T>(self, q: T, t: T) -> T {
        match self {
            Tier::Quick => q,
            Tier::Thorough => t,
        }
    }
}

#[derive(Clone, Debug)]
pub struct Violation {
    pub kind: String,
    pub detail: String,
    pub replay: String,
}

static HEARTBEAT: AtomicU64 = AtomicU64::new(0);
static CUR_CASE: AtomicU64 = AtomicU64::new(0);
thread_local! { static CUR_STREAM: RefCell<String> = RefCell::new(String::new()); }
static CUR_STREAM_GLOBAL: std::sync::Mutex<String> = std::sync::Mutex::new(String::new());

pub struct Ctx {
    pub id: String,
    pub tier: Tier,
    pub seed: u64,
    pub shard: usize,
    pub nshards: usize,
    pub profile: String,
    pub evaluations: u64,
    pub counters: BTreeMap<String, u64>,
    pub distinct: HashSet<u64>,
    /// distinct by construction (exhaustive enumerations): added to the measured hash-set size
    pub distinct_enum: u64,
    pub samples: Vec<Value>,
    pub sample_cap: usize,
    pub violations: Vec<Violation>,
    pub n_violations: u64,
    pub known_hits: BTreeMap<String, u64>,
    pub known: Vec<KnownFinding>,
    pub notes: BTreeMap<String, String>,
    pub info: BTreeMap<String, Value>,
    pub only: Option<(String, u64)>,
    pub trace: bool,
    pub cur_stream: String,
    pub cur_case: u64,
    pub inconclusive: Vec<String>,
    /// (counter, minimum) demands, evaluated by the driver on the merged counters
    pub requirements: Vec<(String, u64)>,
    /// named maxima (merged by max across shards), e.g. the largest deviation observed from an oracle
    pub maxima: BTreeMap<String, f64>,
}

impl Ctx {
    pub fn new(id: &str, tier: Tier, seed: u64, shard: usize, nshards: usize, profile: &str) -> Ctx {
        Ctx {
            id: id.to_string(),
            tier,
            seed,
            shard,
            nshards,
            profile: profile.to_string(),
            evaluations: 0,
            counters: BTreeMap::new(),
            distinct: HashSet::new(),
            distinct_enum: 0,
            samples: Vec::new(),
            sample_cap: 4,
            violations: Vec::new(),
            n_violations: 0,
            known_hits: BTreeMap::new(),
            known: load_known(id),
            notes: BTreeMap::new(),
            info: BTreeMap::new(),
            only: None,
            trace: false,
            cur_stream: String::new(),
            cur_case: 0,
            inconclusive: Vec::new(),
            requirements: Vec::new(),
            maxima: BTreeMap::new(),
        }
    }
    pub fn observe_max(&mut self, key: &str, v: f64) {
        let e = self.maxima.entry(key.to_string()).or_insert(f64::NEG_INFINITY);
        if v > *e {
            *e = v;
        }
    }
    pub fn quick(&self) -> bool {
        self.tier == Tier::Quick
    }
    pub fn count(&mut self, key: &str) {
        *self.counters.entry(key.to_string()).or_insert(0) += 1;
    }
    pub fn count_n(&mut self, key: &str, n: u64) {
        *self.counters.entry(key.to_string()).or_insert(0) += n;
    }
    pub fn get(&self, key: &str) -> u64 {
        self.counters.get(key).copied().unwrap_or(0)
    }
    pub fn eval(&mut self) {
        self.evaluations += 1;
        HEARTBEAT.fetch_add(1, Ordering::Relaxed);
    }
    pub fn eval_n(&mut self, n: u64) {
        self.evaluations += n;
        HEARTBEAT.fetch_add(1, Ordering::Relaxed);
    }
    pub fn beat(&self) {
        HEARTBEAT.fetch_add(1, Ordering::Relaxed);
    }
    /// register a non-trivial case by the hash of its input
    pub fn nontrivial(&mut self, h: u64) {
        if self.distinct.len() < 3_000_000 {
            self.distinct.insert(h);
        } else {
            self.count("distinct_set_saturated");
        }
    }
    pub fn nontrivial_bytes(&mut self, b: &[u8]) {
        self.nontrivial(fnv(b));
    }
    pub fn sample(&mut self, v: Value) {
        if self.samples.len() < self.sample_cap {
            self.samples.push(v);
        }
    }
    /// RNG for a given case of a given stream: depends only on (seed, stream, index).
    pub fn rng_for(&self, stream: &str, i: u64) -> Rng {
        let mut r = Rng::new(self.seed ^ fnv_str(stream).rotate_left(17) ^ i.wrapping_mul(0xA24BAED4963EE407));
        r.next();
        r
    }
    /// Run cases 0..n of `stream` that belong to this shard (or only the replayed case).
    pub fn cases(&mut self, stream: &str, n: u64, mut f: impl FnMut(&mut Ctx, u64, &mut Rng)) {
        self.cur_stream = stream.to_string();
        *CUR_STREAM_GLOBAL.lock().unwrap() = stream.to_string();
        for i in 0..n {
            if let Some((s, k)) = &self.only {
                if s != stream || *k != i {
                    continue;
                }
            } else if (i as usize) % self.nshards != self.shard {
                continue;
            }
            self.cur_case = i;
            CUR_CASE.store(i, Ordering::Relaxed);
            if self.trace {
                // write-ahead log: names the case before it runs, so a crash or hang is attributable
                let mut o = std::io::stderr();
                let _ = writeln!(o, "TRACE {} {}", stream, i);
            }
            let mut rng = self.rng_for(stream, i);
            f(self, i, &mut rng);
            HEARTBEAT.fetch_add(1, Ordering::Relaxed);
        }
    }
    fn replay_path(&self, kind: &str) -> PathBuf {
        let dir = Path::new(&verif_root()).join("replays");
        let _ = std::fs::create_dir_all(&dir);
        let k: String = kind.chars().map(|c| if c.is_ascii_alphanumeric() { c } else { '_' }).take(40).collect();
        dir.join(format!("{}_{}_{}_{}_{}_{}.json", self.id, self.profile, self.cur_stream.replace('/', "_"), self.cur_case, k, self.violations.len()))
    }
    /// Record a violation (unless `key` is a listed known finding of this property).
    pub fn violation(&mut self, key: &str, detail: String, input: Value) {
        if let Some(k) = self.known.iter().find(|k| k.key == key) {
            *self.known_hits.entry(k.key.clone()).or_insert(0) += 1;
            return;
        }
        self.n_violations += 1;
        // keep at most 2 recorded witnesses per kind, 10 in total
        if self.violations.len() < 10 && self.violations.iter().filter(|v| v.kind == key).count() < 2 {
            let path = self.replay_path(key);
            let body = json!({
                "property": self.id, "profile": self.profile, "tier": self.tier.name(), "seed": self.seed,
                "stream": self.cur_stream, "case": self.cur_case, "kind": key, "detail": detail, "input": input,
                "replay_cmd": format!("./check {} --replay {}", self.id, path.display()),
            });
            let _ = std::fs::write(&path, serde_json::to_string_pretty(&body).unwrap());
            self.violations.push(Violation { kind: key.to_string(), detail, replay: path.display().to_string() });
        }
    }
    pub fn panic_violation(&mut self, what: &str, p: &PanicInfo, input: Value) {
        let loc = p.location.clone();
        self.violation(&format!("panic in {} at {}", what, loc), format!("panicked: {} ({})", p.message, loc), input);
    }
    /// A listed known finding reproduced on its deterministic witness.
    pub fn known_hit(&mut self, key: &str) -> bool {
        if self.known.iter().any(|k| k.key == key) {
            *self.known_hits.entry(key.to_string()).or_insert(0) += 1;
            true
        } else {
            false
        }
    }
    pub fn is_known(&self, key: &str) -> bool {
        self.known.iter().any(|k| k.key == key)
    }
    pub fn inconclusive(&mut self, why: String) {
        self.inconclusive.push(why);
    }
    /// Demand a minimum number of observations of something, else the run is inconclusive.
    pub fn require(&mut self, key: &str, min: u64) {
        self.requirements.push((key.to_string(), min));
    }
}

// ------------------------------------------------------------------------------------------
// Known findings
#[derive(Clone, Debug)]
pub struct KnownFinding {
    pub property: String,
    pub key: String,
    pub text: String,
}
pub fn load_known(id: &str) -> Vec<KnownFinding> {
    let path = Path::new(&verif_root()).join("KNOWN_FINDINGS.txt");
    let Ok(s) = std::fs::read_to_string(path) else { return Vec::new() };
    let mut out = Vec::new();
    for line in s.lines() {
        let line = line.trim();
        // finding: property=<id> key=<exact signature> :: <what fails>
        let Some(rest) = line.strip_prefix("finding:") else { continue };
        let rest = rest.trim();
        let Some(rest) = rest.strip_prefix("property=") else { continue };
        let Some((pid, rest)) = rest.split_once(' ') else { continue };
        let Some(rest) = rest.trim().strip_prefix("key=") else { continue };
        let (key, text) = rest.split_once(" :: ").unwrap_or((rest, ""));
        if pid == id {
            out.push(KnownFinding { property: pid.to_string(), key: key.trim().to_string(), text: text.trim().to_string() });
        }
    }
    out
}

// ------------------------------------------------------------------------------------------
// Property registry
pub struct Prop {
    pub id: &'static str,
    pub level: &'static str,
    pub rule: &'static str,
    pub assumptions: &'static [&'static str],
    /// build profiles to run in, per tier
    pub profiles: fn(Tier) -> Vec<&'static str>,
    pub shards: fn(Tier) -> usize,
    /// CPU-seconds without a heartbeat that count as "no progress" (None: not a progress property)
    pub no_progress_cpu_s: Option<u64>,
    pub run: fn(&mut Ctx),
    /// post-merge step in the driver: gets the merged context and every child's (label, notes)
    pub finalize: Option<fn(&mut Ctx, &[(String, BTreeMap<String, String>)])>,
}
pub fn both(_: Tier) -> Vec<&'static str> {
    vec!["release", "checked"]
}
pub fn release_only(_: Tier) -> Vec<&'static str> {
    vec!["release"]
}
pub fn shards16(_: Tier) -> usize {
    16
}
pub fn shards8(_: Tier) -> usize {
    8
}

// ------------------------------------------------------------------------------------------
// Child side
fn proc_cpu_ticks() -> u64 {
    // utime + stime of this process, in clock ticks (fields 14 and 15 of /proc/self/stat)
    let Ok(s) = std::fs::read_to_string("/proc/self/stat") else { return 0 };
    let Some(p) = s.rfind(')') else { return 0 };
    let f: Vec<&str> = s[p + 2..].split(' ').collect();
    f.get(11).and_then(|x| x.parse::<u64>().ok()).unwrap_or(0) + f.get(12).and_then(|x| x.parse::<u64>().ok()).unwrap_or(0)
}
fn start_progress_watchdog(limit_cpu_s: u64) {
    std::thread::spawn(move || {
        let mut last_beat = HEARTBEAT.load(Ordering::Relaxed);
        let mut cpu_at_beat = proc_cpu_ticks();
        loop {
            std::thread::sleep(Duration::from_millis(500));
            let b = HEARTBEAT.load(Ordering::Relaxed);
            let cpu = proc_cpu_ticks();
            if b != last_beat {
                last_beat = b;
                cpu_at_beat = cpu;
            } else if cpu.saturating_sub(cpu_at_beat) > limit_cpu_s * 100 {
                // bounded progress violated: the process burnt `limit` CPU-seconds inside one monitored call
                let stream = CUR_STREAM_GLOBAL.lock().map(|s| s.clone()).unwrap_or_default();
                println!("NOPROGRESS stream={} case={}", stream, CUR_CASE.load(Ordering::Relaxed));
                let _ = std::io::stdout().flush();
                std::process::exit(3);
            }
        }
    });
}

pub fn child_main(prop: &Prop, tier: Tier, seed: u64, shard: usize, nshards: usize, profile: &str, out: &Path, only: Option<(String, u64)>, trace: bool) -> i32 {
    install_panic_hook();
    if let Some(l) = prop.no_progress_cpu_s {
        start_progress_watchdog(l);
    }
    let mut ctx = Ctx::new(prop.id, tier, seed, shard, nshards, profile);
    ctx.only = only;
    ctx.trace = trace;
    // big stack: MainEvent is ~0.5 MB by value and opt-level=1 copies it several times
    let run = prop.run;
    let ctx = std::thread::Builder::new()
        .stack_size(256 << 20)
        .spawn(move || {
            // a panic of the harness outside `guard` normally is a harness bug (exit 2). One exception: helpers that
            // need the library to decode an input the *reference* accepts panic with a marker; that is a finding.
            let r = catch_unwind(AssertUnwindSafe(|| run(&mut ctx)));
            if let Err(e) = r {
                let msg = e.downcast_ref::<String>().cloned().or_else(|| e.downcast_ref::<&str>().map(|s| s.to_string())).unwrap_or_default();
                if msg.contains("LIBRARY-REJECTS-VALID-INPUT") {
                    ctx.violation("library rejects or panics on a valid input built by the harness", msg, Value::Null);
                    ctx.count("shards cut short by a library failure on a valid input");
                } else {
                    std::panic::resume_unwind(e);
                }
            }
            ctx
        })
        .unwrap()
        .join();
    let ctx = match ctx {
        Ok(c) => c,
        Err(_) => {
            eprintln!("HARNESS-ERROR: the harness itself panicked outside the panic monitor (see message above)");
            return 2;
        }
    };
    write_child_result(&ctx, out);
    0
}

fn write_child_result(ctx: &Ctx, out: &Path) {
    let v = json!({
        "evaluations": ctx.evaluations,
        "counters": ctx.counters,
        "distinct_enum": ctx.distinct_enum,
        "samples": ctx.samples,
        "violations": ctx.violations.iter().map(|v| json!({"kind": v.kind, "detail": v.detail, "replay": v.replay})).collect::<Vec<_>>(),
        "n_violations": ctx.n_violations,
        "known_hits": ctx.known_hits,
        "notes": ctx.notes,
        "info": ctx.info,
        "inconclusive": ctx.inconclusive,
        "requirements": ctx.requirements.iter().map(|(k, m)| json!([k, m])).collect::<Vec<_>>(),
        "maxima": ctx.maxima,
    });
    let mut hb = Vec::with_capacity(ctx.distinct.len() * 8);
    for h in &ctx.distinct {
        hb.extend(h.to_le_bytes());
    }
    // not being able to write the result (scratch directory removed, disk full) is a failure of the harness, never a
    // statement about the code under test
    let r = std::fs::write(out.with_extension("hashes"), hb).and_then(|_| std::fs::write(out, serde_json::to_vec(&v).unwrap()));
    if let Err(e) = r {
        eprintln!("HARNESS-ERROR: cannot write the shard result {}: {}", out.display(), e);
        std::process::exit(2);
    }
}

// ------------------------------------------------------------------------------------------
// Driver side
pub fn bin_for(profile: &str) -> PathBuf {
    // AGV_BIN_DIR: alternative build output (used by tools/coverage.sh for the instrumented build)
    match std::env::var("AGV_BIN_DIR") {
        Ok(d) => Path::new(&d).join(profile).join("agv"),
        Err(_) => Path::new(&verif_root()).join("target").join(profile).join("agv"),
    }
}
/// Scratch directory of one driver run. The driver's pid is part of the name (children inherit it through AGV_RUN_TAG),
/// so that two runs of the same check at the same time do not delete each other's files.
pub fn run_tag() -> String {
    std::env::var("AGV_RUN_TAG").unwrap_or_else(|_| std::process::id().to_string())
}
pub fn tmp_dir(id: &str) -> PathBuf {
    let d = Path::new(&verif_root()).join("target").join("tmp").join(format!("{}-{}", id, run_tag()));
    let _ = std::fs::create_dir_all(&d);
    d
}

pub struct DriverOpts {
    pub tier: Tier,
    pub seed: u64,
    pub replay: Option<PathBuf>,
}

pub fn driver_main(prop: &Prop, opts: &DriverOpts) -> i32 {
    install_panic_hook();
    let t0 = Instant::now();
    let mut tier = opts.tier;
    // a replay runs in the tier its case was generated in (case counts and sizes depend on the tier)
    if let Some(r) = &opts.replay {
        if let Some(v) = std::fs::read(r).ok().and_then(|b| serde_json::from_slice::<Value>(&b).ok()) {
            if v["tier"].as_str() == Some("thorough") {
                tier = Tier::Thorough;
            } else if v["tier"].as_str() == Some("quick") {
                tier = Tier::Quick;
            }
        }
    }
    let tmp = tmp_dir(prop.id);
    let mut merged = Ctx::new(prop.id, tier, opts.seed, 0, 1, "driver");
    let mut children_notes: Vec<(String, BTreeMap<String, String>)> = Vec::new();
    let mut crash_violations: Vec<(String, String)> = Vec::new();
    let mut profiles = (prop.profiles)(tier);
    if let Ok(only) = std::env::var("AGV_PROFILES") {
        profiles.retain(|p| only.split(',').any(|o| o == *p));
    }
    let mut nshards = (prop.shards)(tier);
    let mut only: Option<(String, u64)> = None;
    let mut seed = opts.seed;
    if let Some(r) = &opts.replay {
        let v: Value = match std::fs::read(r).ok().and_then(|b| serde_json::from_slice(&b).ok()) {
            Some(v) => v,
            None => {
                eprintln!("cannot read replay file {}", r.display());
                return 2;
            }
        };
        only = Some((v["stream"].as_str().unwrap_or("").to_string(), v["case"].as_u64().unwrap_or(0)));
        seed = v["seed"].as_u64().unwrap_or(seed);
        let p = v["profile"].as_str().unwrap_or("release").to_string();
        profiles = vec![if p == "checked" { "checked" } else { "release" }];
        nshards = 1;
        merged.only = only.clone();
        merged.seed = seed;
        println!("replaying stream={} case={} seed={} profile={}", only.as_ref().unwrap().0, only.as_ref().unwrap().1, seed, profiles[0]);
    }
    let watchdog = Duration::from_secs(tier.pick(1500, 6 * 3600));
    let mut timed_out = false;
    let mut harness_errors = 0;
    for profile in &profiles {
        let bin = bin_for(profile);
        if !bin.exists() {
            eprintln!("missing binary {} (run ./check build)", bin.display());
            return 2;
        }
        let mut kids = Vec::new();
        for s in 0..nshards {
            let out = tmp.join(format!("{}-{}.json", profile, s));
            let _ = std::fs::remove_file(&out);
            let mut cmd = std::process::Command::new(&bin);
            cmd.arg(prop.id).arg("--child").arg("--tier").arg(tier.name()).arg("--seed").arg(seed.to_string()).arg("--shard").arg(format!("{}/{}", s, nshards)).arg("--profile").arg(profile).arg("--out").arg(&out);
            if let Some((st, k)) = &only {
                cmd.arg("--only").arg(st).arg(k.to_string());
            }
            cmd.env("RUST_MIN_STACK", "67108864");
            cmd.env("AGV_RUN_TAG", run_tag());
            cmd.stdout(std::process::Stdio::piped()).stderr(std::process::Stdio::piped());
            let child = cmd.spawn().expect("spawn child shard");
            kids.push((s, out, child));
        }
        for (s, out, child) in kids {
            let label = format!("{}-{}", profile, s);
            let (status, stdout, stderr) = wait_with_deadline(child, t0, watchdog);
            match status {
                None => {
                    timed_out = true;
                    eprintln!("INCONCLUSIVE: shard {} exceeded the wall-clock watchdog", label);
                }
                Some(st) if st.success() => match std::fs::read(&out).ok().and_then(|b| serde_json::from_slice::<Value>(&b).ok()) {
                    Some(v) => {
                        merge_child(&mut merged, &v, &out);
                        let notes: BTreeMap<String, String> = v["notes"].as_object().map(|o| o.iter().map(|(k, v)| (k.clone(), v.as_str().unwrap_or("").to_string())).collect()).unwrap_or_default();
                        children_notes.push((label, notes));
                    }
                    None => {
                        harness_errors += 1;
                        eprintln!("HARNESS-ERROR: shard {} wrote no result", label);
                    }
                },
                Some(st) => {
                    let code = st.code();
                    if code == Some(2) {
                        harness_errors += 1;
                        eprintln!("HARNESS-ERROR in shard {}:\n{}", label, tail(&stderr, 30));
                    } else if code == Some(3) {
                        // bounded-progress violation reported by the child's CPU-time watchdog
                        let line = stdout.lines().find(|l| l.starts_with("NOPROGRESS")).unwrap_or("NOPROGRESS").to_string();
                        crash_violations.push((format!("no progress ({})", label), line));
                    } else {
                        // died on a signal / abort (stack overflow, allocation failure, abort()):
                        // escape catch_unwind, so locate the case by re-running the shard with the write-ahead trace
                        let last = locate_crash(prop, tier, seed, s, nshards, profile, &only);
                        crash_violations.push((format!("abort/crash of shard {} status={:?}", label, st), format!("last case before death: {}\nstderr tail:\n{}", last, tail(&stderr, 15))));
                    }
                }
            }
        }
    }
    if let Some(fin) = prop.finalize {
        if harness_errors == 0 && !timed_out {
            fin(&mut merged, &children_notes);
        }
    }
    // results of an external sanitizer pass run by ./check before the monitor (Miri for C01-thorough)
    if let Ok(i) = std::env::var("AGV_EXTRA_INFO") {
        if !i.is_empty() {
            merged.info.insert("external sanitizer pass".into(), json!(i));
        }
    }
    if let Ok(v) = std::env::var("AGV_EXTRA_VIOLATION") {
        if !v.is_empty() {
            crash_violations.push(("undefined behaviour reported by Miri in a decoder call".into(), v));
        }
    }
    for (kind, detail) in crash_violations {
        merged.cur_stream = "crash".into();
        merged.profile = "driver".into();
        merged.violation(&kind, detail, Value::Null);
    }
    if opts.replay.is_none() {
        for (k, min) in merged.requirements.clone() {
            let v = merged.get(&k);
            if v < min {
                merged.inconclusive(format!("monitor observed too little: counter `{}` = {} < {}", k, v, min));
            }
        }
    }
    // evidence
    let wall = t0.elapsed().as_secs_f64();
    let distinct = merged.distinct.len() as u64 + merged.distinct_enum;
    if opts.replay.is_none() {
        if distinct < 2 || merged.evaluations < 1 {
            merged.inconclusive(format!("too few observations: evaluations={} distinct_nontrivial={}", merged.evaluations, distinct));
        }
        write_evidence(prop, &merged, &profiles, nshards, distinct, wall);
    }
    // report
    println!("== {} tier={} seed={} profiles={:?} shards={} evaluations={} distinct_nontrivial={} wall={:.1}s", prop.id, tier.name(), seed, profiles, nshards, merged.evaluations, distinct, wall);
    for (k, v) in &merged.counters {
        println!("   {:<58} {}", k, v);
    }
    for (k, v) in &merged.info {
        println!("   {:<58} {}", k, v);
    }
    for (k, v) in &merged.maxima {
        println!("   max {:<54} {:e}", k, v);
    }
    for (key, n) in &merged.known_hits {
        let text = merged.known.iter().find(|k| &k.key == key).map(|k| k.text.clone()).unwrap_or_default();
        println!("KNOWN-FINDING: property={} {} ({} occurrence(s) this run) {}", prop.id, key, n, text);
    }
    let _ = std::fs::remove_dir_all(&tmp);
    let _ = std::fs::remove_dir_all(Path::new(&verif_root()).join("target/tmp").join(format!("{}-work-{}", prop.id, run_tag())));
    if merged.n_violations > 0 {
        for v in &merged.violations {
            println!("VIOLATION property={} replay={}", prop.id, v.replay);
            println!("   kind: {}\n   {}", v.kind, v.detail.lines().take(12).collect::<Vec<_>>().join("\n   "));
        }
        println!("{} violation(s) in total", merged.n_violations);
        return 1;
    }
    if harness_errors > 0 || timed_out || !merged.inconclusive.is_empty() {
        for w in &merged.inconclusive {
            println!("INCONCLUSIVE: {}", w);
        }
        return 2;
    }
    println!("HELD property={} on everything observed", prop.id);
    0
}

fn tail(s: &str, n: usize) -> String {
    let l: Vec<&str> = s.lines().collect();
    l[l.len().saturating_sub(n)..].join("\n")
}

fn wait_with_deadline(mut child: std::process::Child, t0: Instant, limit: Duration) -> (Option<std::process::ExitStatus>, String, String) {
    use std::io::Read;
    // drain pipes in threads so a chatty child cannot block
    let mut so = child.stdout.take().unwrap();
    let mut se = child.stderr.take().unwrap();
    let h1 = std::thread::spawn(move || {
        let mut s = String::new();
        let mut b = Vec::new();
        let _ = so.read_to_end(&mut b);
        s.push_str(&String::from_utf8_lossy(&b));
        s
    });
    let h2 = std::thread::spawn(move || {
        let mut b = Vec::new();
        let _ = se.read_to_end(&mut b);
        String::from_utf8_lossy(&b).to_string()
    });
    let status = loop {
        match child.try_wait() {
            Ok(Some(st)) => break Some(st),
            Ok(None) => {
                if t0.elapsed() > limit {
                    let _ = child.kill();
                    let _ = child.wait();
                    break None;
                }
                std::thread::sleep(Duration::from_millis(20));
            }
            Err(_) => break None,
        }
    };
    (status, h1.join().unwrap_or_default(), h2.join().unwrap_or_default())
}

fn locate_crash(prop: &Prop, tier: Tier, seed: u64, shard: usize, nshards: usize, profile: &str, only: &Option<(String, u64)>) -> String {
    let out = tmp_dir(prop.id).join("trace.json");
    let mut cmd = std::process::Command::new(bin_for(profile));
    cmd.arg(prop.id).arg("--child").arg("--trace").arg("--tier").arg(tier.name()).arg("--seed").arg(seed.to_string()).arg("--shard").arg(format!("{}/{}", shard, nshards)).arg("--profile").arg(profile).arg("--out").arg(&out);
    if let Some((st, k)) = only {
        cmd.arg("--only").arg(st).arg(k.to_string());
    }
    cmd.env("RUST_MIN_STACK", "67108864");
    match cmd.output() {
        Ok(o) => {
            let e = String::from_utf8_lossy(&o.stderr);
            e.lines().filter(|l| l.starts_with("TRACE ")).last().unwrap_or("<none>").to_string()
        }
        Err(_) => "<could not re-run>".into(),
    }
}

fn merge_child(m: &mut Ctx, v: &Value, out: &Path) {
    m.evaluations += v["evaluations"].as_u64().unwrap_or(0);
    m.distinct_enum += v["distinct_enum"].as_u64().unwrap_or(0);
    if let Some(o) = v["counters"].as_object() {
        for (k, x) in o {
            *m.counters.entry(k.clone()).or_insert(0) += x.as_u64().unwrap_or(0);
        }
    }
    if let Some(o) = v["known_hits"].as_object() {
        for (k, x) in o {
            *m.known_hits.entry(k.clone()).or_insert(0) += x.as_u64().unwrap_or(0);
        }
    }
    if let Some(a) = v["samples"].as_array() {
        for s in a {
            if m.samples.len() < 6 {
                m.samples.push(s.clone());
            }
        }
    }
    if let Some(o) = v["info"].as_object() {
        for (k, x) in o {
            m.info.entry(k.clone()).or_insert(x.clone());
        }
    }
    if let Some(a) = v["inconclusive"].as_array() {
        for s in a {
            m.inconclusive.push(s.as_str().unwrap_or("").to_string());
        }
    }
    if let Some(o) = v["maxima"].as_object() {
        for (k, x) in o {
            if let Some(x) = x.as_f64() {
                m.observe_max(k, x);
            }
        }
    }
    if let Some(a) = v["requirements"].as_array() {
        for r in a {
            let k = (r[0].as_str().unwrap_or("").to_string(), r[1].as_u64().unwrap_or(0));
            if !m.requirements.contains(&k) {
                m.requirements.push(k);
            }
        }
    }
    m.n_violations += v["n_violations"].as_u64().unwrap_or(0);
    if let Some(a) = v["violations"].as_array() {
        for x in a {
            if m.violations.len() < 10 {
                m.violations.push(Violation { kind: x["kind"].as_str().unwrap_or("").into(), detail: x["detail"].as_str().unwrap_or("").into(), replay: x["replay"].as_str().unwrap_or("").into() });
            }
        }
    }
    if let Ok(b) = std::fs::read(out.with_extension("hashes")) {
        for c in b.chunks_exact(8) {
            m.distinct.insert(u64::from_le_bytes(c.try_into().unwrap()));
        }
    }
}

fn write_evidence(prop: &Prop, m: &Ctx, profiles: &[&str], nshards: usize, distinct: u64, wall: f64) {
    let mut coverage = serde_json::Map::new();
    coverage.insert("evaluations".into(), json!(m.evaluations));
    coverage.insert("distinct_nontrivial".into(), json!(distinct));
    coverage.insert("rule".into(), json!(prop.rule));
    let samples = if m.samples.is_empty() { vec![json!("no sample recorded")] } else { m.samples.clone() };
    coverage.insert("samples".into(), json!(samples));
    coverage.insert("observed".into(), json!(m.counters));
    coverage.insert("build_profiles".into(), json!(profiles));
    coverage.insert("child_shards_per_profile".into(), json!(nshards));
    if !m.info.is_empty() {
        coverage.insert("info".into(), json!(m.info));
    }
    if !m.maxima.is_empty() {
        coverage.insert("maxima_observed".into(), json!(m.maxima));
    }
    if !m.known_hits.is_empty() {
        coverage.insert("known_findings_reproduced".into(), json!(m.known_hits));
    }
    if !m.inconclusive.is_empty() {
        coverage.insert("inconclusive".into(), json!(m.inconclusive));
    }
    let verdict = if m.n_violations > 0 { "violated" } else if !m.inconclusive.is_empty() { "inconclusive" } else { "held on what was observed" };
    coverage.insert("verdict".into(), json!(verdict));
    let ev = json!({
        "property_id": prop.id,
        "tier": m.tier.name(),
        "seed": m.seed,
        "level": prop.level,
        "coverage": coverage,
        "assumptions": prop.assumptions,
        "wall_s": (wall * 100.0).round() / 100.0,
        "violations": m.n_violations,
    });
    // AGV_EVIDENCE_DIR: side runs (coverage, self-test) must not overwrite the registered evidence
    let dir = match std::env::var("AGV_EVIDENCE_DIR") {
        Ok(d) => PathBuf::from(d),
        Err(_) => Path::new(&verif_root()).join("evidence"),
    };
    let _ = std::fs::create_dir_all(&dir);
    std::fs::write(dir.join(format!("{}.json", prop.id)), serde_json::to_string_pretty(&ev).unwrap() + "\n").unwrap();
}
