//! Independent forward model: helical tracks -> ionisation -> drift -> wire/pad signals -> raw ADC samples.
use crate::core::Rng; use std::collections::BTreeMap; use std::f64::consts::PI;
pub const NF: [f64; 5] = [1.0, -0.1275, -0.0365, -0.012, -0.0042];
pub struct Model { pub drift: Vec<(Vec<(f64, f64, f64)>, f64)>, pub wr: Vec<f64>, pub pr: Vec<f64> }
fn load_response(path: &str, flip: bool) -> Vec<f64> {
    let raw: Vec<f64> = serde_json::from_slice(&std::fs::read(path).unwrap()).unwrap();
    raw.chunks_exact(16).map(|c| { let s: f64 = c.iter().sum(); if flip { -s } else { s } }).collect()
}
impl Model {
    pub fn load(repo: &str) -> Model {
        Model { drift: serde_json::from_slice(&std::fs::read(format!("{repo}/physics/data/simulation/drift_table/drift_1T_70Ar_30CO2.json")).unwrap()).unwrap(),
            wr: load_response(&format!("{repo}/physics/data/simulation/tpc_response/wires.json"), false), pr: load_response(&format!("{repo}/physics/data/simulation/tpc_response/pads.json"), true) }
    }
    /// radius -> (drift time, lorentz angle) by inverse interpolation
    pub fn drift_inverse(&self, z: f64, r: f64) -> Option<(f64, f64)> {
        let za = z.abs(); let (tab, _) = self.drift.iter().find(|(_, ub)| *ub >= za)?;
        if r > tab[0].1 || r < tab[tab.len() - 1].1 { return None; }
        let k = tab.windows(2).position(|w| w[0].1 >= r && r >= w[1].1)?;
        let (a, b) = (tab[k], tab[k + 1]); let f = (a.1 - r) / (a.1 - b.1);
        Some((a.0 + f * (b.0 - a.0), a.2 + f * (b.2 - a.2)))
    }
}
#[derive(Clone, Debug)]
pub struct TrackP { pub psi: f64, pub radius: f64, pub charge: f64, pub slope: f64 }
#[derive(Clone, Debug)]
pub struct EventP { pub vertex: (f64, f64, f64), pub tracks: Vec<TrackP>, pub wire_amp: f64, pub pad_amp: f64, pub pad_sigma: f64, pub step: f64 }
pub fn random_event(rng: &mut Rng) -> EventP {
    let nt = 2 + rng.below(3) as usize;
    EventP { vertex: (rng.range(-0.01, 0.01), rng.range(-0.01, 0.01), rng.range(-0.8, 0.8)),
        tracks: (0..nt).map(|_| TrackP { psi: rng.range(-PI, PI), radius: rng.range(0.3, 3.3), charge: if rng.below(2) == 0 { 1.0 } else { -1.0 }, slope: rng.range(-0.8, 0.8) }).collect(),
        wire_amp: rng.range(20.0, 120.0), pad_amp: rng.range(150.0, 900.0), pad_sigma: rng.range(0.003, 0.006), step: 0.001 }
}
pub struct Signals { pub wires: BTreeMap<usize, Vec<f64>>, pub pads: BTreeMap<(usize, usize), Vec<f64>>, pub n_ion: usize }
pub const WIRE_DELAY: usize = 100; pub const PAD_DELAY: usize = 100; pub const WIRE_LEN: usize = 697; pub const PAD_LEN: usize = 511;
/// analog (baseline-subtracted) signals as seen at the ADC input, including the leading delay samples.
pub fn signals(m: &Model, ev: &EventP) -> Signals {
    let mut win: BTreeMap<(usize, usize), f64> = BTreeMap::new(); // (wire,timebin)->amp
    let mut pin: BTreeMap<(usize, usize, usize), f64> = BTreeMap::new(); // (col,row,timebin)
    let pitch_w = 2.0 * PI / 256.0; let mut n_ion = 0;
    for t in &ev.tracks {
        let (dx, dy) = (t.psi.cos(), t.psi.sin());
        // centre: vertex + R * q * normal(left)
        let (nx, ny) = (-dy * t.charge, dx * t.charge);
        let (cx, cy) = (ev.vertex.0 + t.radius * nx, ev.vertex.1 + t.radius * ny);
        let a0 = (ev.vertex.1 - cy).atan2(ev.vertex.0 - cx);
        let mut s = 0.0; let mut was_inside = false;
        while s < 1.5 {
            let a = a0 + t.charge * s / t.radius;
            let (x, y, z) = (cx + t.radius * a.cos(), cy + t.radius * a.sin(), ev.vertex.2 + t.slope * s);
            let r = x.hypot(y); let phi = y.atan2(x);
            if r > 0.2 && was_inside { break; }
            if let Some((td, lor)) = m.drift_inverse(z, r) {
                was_inside = true; n_ion += 1;
                let pw = (phi + lor).rem_euclid(2.0 * PI); let shifted = ((pw / pitch_w).floor() as usize).min(255); let wire = (shifted + 8) & 0xff;
                let k = (td / 16e-9).round() as usize;
                *win.entry((wire, k)).or_default() += ev.wire_amp;
                let col = shifted / 8;
                let row0 = ((z + 1.152) / 0.004).floor() as i64;
                for row in (row0 - 6)..=(row0 + 6) { if row < 0 || row >= 576 { continue; } let zr = (row as f64 + 0.5) * 0.004 - 1.152; let w = (-(zr - z).powi(2) / (2.0 * ev.pad_sigma.powi(2))).exp(); *pin.entry((col, row as usize, k)).or_default() += ev.pad_amp * w; }
            }
            s += ev.step;
        }
    }
    let mut wires: BTreeMap<usize, Vec<f64>> = BTreeMap::new(); let mut pads: BTreeMap<(usize, usize), Vec<f64>> = BTreeMap::new();
    for ((w, k), a) in win { for d in -4i32..=4 { let ww = (w as i32 + d).rem_euclid(256) as usize; let f = NF[d.unsigned_abs() as usize]; let sig = wires.entry(ww).or_insert_with(|| vec![0.0; WIRE_LEN]);
        for (j, r) in m.wr.iter().enumerate() { let idx = WIRE_DELAY + k + j; if idx < WIRE_LEN { sig[idx] += a * f * r; } } } }
    for ((c, r, k), a) in pin { let sig = pads.entry((c, r)).or_insert_with(|| vec![0.0; PAD_LEN]); for (j, p) in m.pr.iter().enumerate() { let idx = PAD_DELAY + k + j; if idx < PAD_LEN { sig[idx] += a * p; } } }
    Signals { wires, pads, n_ion }
}
pub fn digitise(sig: &[f64], baseline: f64, lo: i16, hi: i16) -> Vec<i16> { sig.iter().map(|s| (baseline + s).round().clamp(lo as f64, hi as f64) as i16).collect() }
pub fn banks(inv: &crate::maps::Inv, sg: &Signals, ts: u32, chunk: usize) -> Vec<(String, Vec<u8>)> {
    let mut out = Vec::new();
    for (w, s) in &sg.wires { let raw = digitise(s, 3000.0, -32768, 32764); if raw.iter().any(|x| *x != 3000) { out.push(crate::event::wire_bank(inv, *w, raw)); } }
    let mut pads = BTreeMap::new();
    for (k, s) in &sg.pads { let raw = digitise(s, 1725.0, -2048, 2047); if raw.iter().any(|x| *x != 1725) { pads.insert(*k, raw); } }
    out.extend(crate::event::pad_banks(inv, &pads, chunk)); out.push(crate::event::trg_bank(ts)); out
}
