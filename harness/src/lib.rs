//! agv: runtime-monitoring harness for the 20 given properties of alpha-g (see /verif/DESIGN.md).
pub mod calib;
pub mod cb;
pub mod core;
pub mod enc;
pub mod event;
pub mod evgen;
pub mod geom;
pub mod maps;
pub mod midas;
pub mod props;
pub mod refs;
pub mod sim;
