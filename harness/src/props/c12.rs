//! C12 – simulated annihilations are reconstructed at their true vertex.
use crate::core::*;
use crate::sim;
use alpha_g_physics::MainEvent;
use serde_json::json;
use uom::si::length::meter;

pub fn prop() -> Prop {
    Prop {
        id: "C12",
        level: "exploration",
        rule: "batches of forward-model events drawn exactly from the distribution of the quantifier (vertex |x|,|y| <= 1 cm, |z| <= 0.8 m; 2-4 tracks, uniform azimuth, curvature radius 0.3-3.3 m, both charges, dz/ds in [-0.8, 0.8]; avalanche amplitude and pad charge width varied per event), digitised and packed into ADC/PWB/TRG banks under the simulation run number -> MainEvent::try_from_banks(..).vertex(). Each child shard is one independent batch (>= 200 events) and must meet all five thresholds on its own. Non-trivial = distinct events (hash of banks) that built and gave >= 13 avalanches.",
        assumptions: &["the forward model (harness/src/sim.rs) is an independent model of the detector sharing only the shipped data files (drift table, response functions) with the library"],
        profiles: release_only,
        shards: |t| t.pick(8, 16),
        no_progress_cpu_s: Some(600),
        run,
        finalize: None,
    }
}

fn quantile(v: &mut Vec<f64>, q: f64) -> f64 {
    v.sort_by(|a, b| a.partial_cmp(b).unwrap());
    if v.is_empty() {
        f64::NAN
    } else {
        v[((v.len() - 1) as f64 * q).round() as usize]
    }
}

fn run(ctx: &mut Ctx) {
    let m = sim::Model::load(&repo_root());
    let inv = crate::maps::inverse(u32::MAX);
    // every shard = one batch
    let per_batch: u64 = ctx.tier.pick(208, 250);
    let nshards = ctx.nshards as u64;
    let shard = ctx.shard;
    let (mut dz, mut dt) = (Vec::new(), Vec::new());
    let (mut n, mut found) = (0u64, 0u64);
    ctx.cases("batch", per_batch * nshards, |ctx, i, rng| {
        ctx.eval();
        let ev = sim::random_event(rng);
        let sg = sim::signals(&m, &ev);
        let banks = sim::banks(&inv, &sg, 1000 + i as u32, 1400);
        n += 1;
        let r = guard(|| MainEvent::try_from_banks(u32::MAX, banks.iter().map(|(n, d)| (&n[..], &d[..]))).map(|e| (e.avalanches().len(), e.vertex())));
        match r {
            Err(p) => ctx.panic_violation("try_from_banks / vertex", &p, json!({"event": format!("{:?}", ev)})),
            Ok(Err(e)) => ctx.violation("spec-conformant simulated event does not build", format!("{}", e), json!({"event": format!("{:?}", ev)})),
            Ok(Ok((nav, v))) => {
                if nav >= 13 {
                    let mut d = Digest::new();
                    for (nm, b) in &banks {
                        d.bytes(nm.as_bytes());
                        d.bytes(b);
                    }
                    ctx.nontrivial(d.0);
                }
                ctx.count(&format!("events with {} tracks", ev.tracks.len()));
                if i < 2 {
                    ctx.sample(json!({"kind": "forward-model event", "true_vertex_m": [ev.vertex.0, ev.vertex.1, ev.vertex.2], "tracks": ev.tracks.len(), "banks": banks.len(), "avalanches": nav, "reconstructed_vertex_m": v.map(|v| [v.x.get::<meter>(), v.y.get::<meter>(), v.z.get::<meter>()])}));
                }
                if let Some(v) = v {
                    found += 1;
                    let (x, y, z) = (v.x.get::<meter>(), v.y.get::<meter>(), v.z.get::<meter>());
                    dz.push(z - ev.vertex.2);
                    dt.push((x - ev.vertex.0).hypot(y - ev.vertex.1));
                    ctx.count("events with a reconstructed primary vertex");
                } else {
                    ctx.count("events without a primary vertex");
                }
            }
        }
    });
    if ctx.only.is_some() || n == 0 {
        return;
    }
    let eff = found as f64 / n as f64;
    let mut adz: Vec<f64> = dz.iter().map(|x| x.abs()).collect();
    let med_adz = quantile(&mut adz.clone(), 0.5);
    let p90 = quantile(&mut adz, 0.9);
    let med_dt = quantile(&mut dt, 0.5);
    let med_dz = quantile(&mut dz, 0.5);
    let stats = json!({"events": n, "efficiency": eff, "median_abs_dz_m": med_adz, "p90_abs_dz_m": p90, "median_transverse_error_m": med_dt, "median_signed_dz_m": med_dz});
    ctx.info.insert(format!("batch {} statistics", shard), stats.clone());
    ctx.count("batches evaluated");
    ctx.cur_stream = "batch-statistics".into();
    ctx.cur_case = shard as u64;
    let mut fail = |ctx: &mut Ctx, what: &str, val: f64, bound: &str| {
        ctx.violation(&format!("batch statistic out of bounds: {}", what), format!("batch {} of {} events: {} = {:.5} (bound {}); all statistics: {}", shard, n, what, val, bound, stats), json!({"batch": shard, "statistics": stats, "note": "replay re-runs the same seed and shard"}));
    };
    if n >= 200 {
        if eff < 0.95 {
            fail(ctx, "efficiency", eff, ">= 0.95");
        }
        if !(med_adz <= 0.015) {
            fail(ctx, "median |dz|", med_adz, "<= 1.5 cm");
        }
        if !(p90 <= 0.05) {
            fail(ctx, "90th percentile |dz|", p90, "<= 5 cm");
        }
        if !(med_dt <= 0.04) {
            fail(ctx, "median transverse error", med_dt, "<= 4 cm");
        }
        if !(med_dz.abs() <= 0.003) {
            fail(ctx, "median signed dz", med_dz, "within +-3 mm");
        }
    } else {
        ctx.inconclusive(format!("batch {} has only {} events (< 200)", shard, n));
    }
}
