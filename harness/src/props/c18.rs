//! C18 – drift-time lookup is bounded, monotone, continuous and symmetric.
use crate::core::*;
use alpha_g_physics::{Avalanche, SpacePoint, TryDriftLookupError};
use serde_json::json;
use uom::si::angle::radian;
use uom::si::f64::{Angle, Length, Time};
use uom::si::length::meter;
use uom::si::time::second;

pub fn prop() -> Prop {
    Prop {
        id: "C18",
        level: "exploration",
        rule: "for all 92 z slices: z in {lower bound + 1 ulp, middle, upper bound, upper bound - 1 ulp} x sign; every tabulated time and +-1 ulp (incl. first and last), t < first, t > last; |z| in {zmax, zmax + 1 ulp, 1.2, 1.3}; 1 ns scan of every slice (monotonicity, 8 ns step, bounds); random (z, t) in [-1.3, 1.3] x [-1e-6, 5e-6]. Each lookup through SpacePoint::try_from(Avalanche) is compared with an independent slice selection + linear interpolation of the shipped JSON table (Ok/Err exactly, r and Lorentz angle to 1e-12). Non-trivial = distinct (z bits, t bits) lookups that succeeded. Also: fixed-t sweeps of z through every slice bound in both directions (history), t = -0.0, any avalanche azimuth (phi - correction exact for |phi| up to 100). Round 6: 8 threads looking up at once, each in its own z slices, 1.3 x 10^6 lookups per run against the reference. Round 9: the avalanche's amplitudes set to NaN / 0 / infinities / negative values on every fourth lookup: bit-identical answer required.",
        assumptions: &["the harness parses the same shipped JSON table the library embeds", "when |z| exceeds the largest bound the corresponding error is the axial one whatever t is (there is no z slice whose time range could apply)"],
        profiles: both,
        shards: shards16,
        no_progress_cpu_s: None,
        run,
        finalize: None,
    }
}

pub type Table = Vec<(Vec<(f64, f64, f64)>, f64)>;
pub fn load_table() -> Table {
    serde_json::from_slice(&std::fs::read(format!("{}/physics/data/simulation/drift_table/drift_1T_70Ar_30CO2.json", repo_root())).unwrap()).unwrap()
}
#[derive(Debug, PartialEq, Clone, Copy)]
pub enum Look {
    Ok(f64, f64),
    ErrT,
    ErrZ,
}
pub fn lib_look(z: f64, t: f64) -> Look {
    lib_look_phi(z, t, 1.0)
}
/// second value: avalanche azimuth minus returned azimuth, i.e. the Lorentz correction that was applied
pub fn lib_look_phi(z: f64, t: f64, phi: f64) -> Look {
    let a = Avalanche { t: Time::new::<second>(t), phi: Angle::new::<radian>(phi), z: Length::new::<meter>(z), wire_amplitude: 1.0, pad_amplitude: 1.0 };
    match SpacePoint::try_from(a) {
        Ok(sp) => Look::Ok(sp.r.get::<meter>(), phi - sp.phi.get::<radian>()),
        Err(TryDriftLookupError::DriftTimeOutOfRange(_)) => Look::ErrT,
        Err(TryDriftLookupError::AxialPositionOutOfRange(_)) => Look::ErrZ,
    }
}
/// independent reference; the bool says "both out of range" (either error acceptable)
pub fn ref_look(d: &Table, z: f64, t: f64) -> (Look, bool) {
    let za = z.abs();
    let zmax = d[d.len() - 1].1;
    let slice = d.iter().position(|(_, ub)| za <= *ub);
    let Some(s) = slice else {
        // z out of range: there is no "z slice" whose time range could be consulted, so the corresponding error is
        // the axial one whatever t is
        let _ = (zmax, t);
        return (Look::ErrZ, false);
    };
    let tab = &d[s].0;
    let n = tab.len();
    if t < tab[0].0 || t > tab[n - 1].0 {
        return (Look::ErrT, false);
    }
    // bracket [k, k+1] with t_k <= t < t_{k+1}; the last knot belongs to the last interval
    let mut k = 0;
    while k + 2 < n && tab[k + 1].0 <= t {
        k += 1;
    }
    let (a, b) = (tab[k], tab[k + 1]);
    let f = (t - a.0) / (b.0 - a.0);
    (Look::Ok(a.1 + f * (b.1 - a.1), a.2 + f * (b.2 - a.2)), false)
}
pub fn next_up(x: f64) -> f64 {
    if x == 0.0 {
        return f64::from_bits(1);
    }
    let b = x.to_bits();
    if x > 0.0 {
        f64::from_bits(b + 1)
    } else {
        f64::from_bits(b - 1)
    }
}
pub fn next_down(x: f64) -> f64 {
    -next_up(-x)
}

fn probe(ctx: &mut Ctx, d: &Table, z: f64, t: f64, what: &str) -> Option<Look> {
    ctx.eval();
    let l = match guard(|| lib_look(z, t)) {
        Ok(l) => l,
        Err(p) => {
            ctx.panic_violation("SpacePoint::try_from(Avalanche)", &p, json!({"z": z, "t": t}));
            return None;
        }
    };
    // the avalanche's other fields (amplitudes) are not inputs of the conversion: any values, NaN and infinities included,
    // must give the very same answer
    if ctx.evaluations % 4 == 0 {
        let k = (ctx.evaluations / 4) as usize;
        let wa = [f64::NAN, 0.0, -1.0, f64::INFINITY, 1e300, 5e-324][k % 6];
        let pa = [0.0, f64::NAN, f64::NEG_INFINITY, -0.0, 123.0, f64::NAN][k % 6];
        let a = Avalanche { t: Time::new::<second>(t), phi: Angle::new::<radian>(1.0), z: Length::new::<meter>(z), wire_amplitude: wa, pad_amplitude: pa };
        let l2 = match guard(|| SpacePoint::try_from(a)) {
            Ok(Ok(sp)) => Look::Ok(sp.r.get::<meter>(), 1.0 - sp.phi.get::<radian>()),
            Ok(Err(TryDriftLookupError::DriftTimeOutOfRange(_))) => Look::ErrT,
            Ok(Err(TryDriftLookupError::AxialPositionOutOfRange(_))) => Look::ErrZ,
            Err(p) => {
                ctx.panic_violation("SpacePoint::try_from(Avalanche)", &p, json!({"z": z, "t": t, "wire_amplitude": format!("{}", wa), "pad_amplitude": format!("{}", pa)}));
                return None;
            }
        };
        let same = match (l, l2) {
            (Look::Ok(a1, b1), Look::Ok(a2, b2)) => a1.to_bits() == a2.to_bits() && b1.to_bits() == b2.to_bits(),
            (x, y) => x == y,
        };
        if !same {
            ctx.violation("the conversion depends on the avalanche's amplitudes", format!("{}: z={:e} t={:e}: {:?} with amplitudes 1 / 1, {:?} with {} / {}", what, z, t, l, l2, wa, pa), json!({"z": z, "t": t}));
            return None;
        }
    }
    let (r, either) = ref_look(d, z, t);
    let agree = match (l, r) {
        (Look::Ok(a, b), Look::Ok(c, e)) => (a - c).abs() <= 1e-12 && (b - e).abs() <= 1e-12,
        (Look::ErrT, Look::ErrT) | (Look::ErrZ, Look::ErrZ) => true,
        (Look::ErrT, Look::ErrZ) => either,
        _ => false,
    };
    if !agree {
        let kind = match (l, r) {
            (Look::Ok(..), Look::Ok(..)) => "lookup value differs from the interpolated table",
            (Look::Ok(..), _) => "lookup succeeded outside the tabulated range",
            (_, Look::Ok(..)) => "lookup failed inside the tabulated range",
            _ => "wrong out-of-range error",
        };
        ctx.violation(kind, format!("{}: z={:e} t={:e} library {:?} reference {:?}", what, z, t, l, r), json!({"z_bits": z.to_bits(), "t_bits": t.to_bits(), "z": z, "t": t}));
        return None;
    }
    if let Look::Ok(..) = l {
        ctx.count("lookups that succeeded");
        ctx.nontrivial(z.to_bits().rotate_left(21) ^ t.to_bits());
    } else {
        ctx.count("lookups that failed as required");
    }
    Some(l)
}

fn run(ctx: &mut Ctx) {
    let d = load_table();
    let zmax = d[d.len() - 1].1;
    let thorough = !ctx.quick();
    ctx.cases("slices", d.len() as u64, |ctx, s, rng| {
        let s = s as usize;
        let (tab, ub) = (&d[s].0, d[s].1);
        let prev_ub = if s == 0 { 0.0 } else { d[s - 1].1 };
        let n = tab.len();
        let (rmin, rmax, cmax) = (tab[n - 1].1.min(tab[0].1), tab[0].1.max(tab[n - 1].1), tab.iter().map(|x| x.2).fold(0.0, f64::max));
        let zs = [if s == 0 { 0.0 } else { next_up(prev_ub) }, 0.5 * (prev_ub + ub), ub, next_down(ub), prev_ub + (ub - prev_ub) * rng.f()];
        if s == 3 {
            ctx.sample(json!({"kind": "slice probe", "slice": s, "z_values": zs, "knots": n, "t_first": tab[0].0, "t_last": tab[n - 1].0, "probes": "every knot and +-1 ulp, t<first, t>last, 1 ns scan"}));
        }
        for &z0 in &zs {
            for sgn in [1.0, -1.0] {
                let z = z0 * sgn;
                for (k, &(t, r, c)) in tab.iter().enumerate() {
                    // exact knot: reproduces the tabulated radius
                    match probe(ctx, &d, z, t, "knot") {
                        Some(Look::Ok(rr, cc)) => {
                            if (rr - r).abs() > 1e-12 || (cc - c).abs() > 1e-12 {
                                ctx.violation("tabulated radius not reproduced at a tabulated time", format!("slice {} knot {} z {} got ({}, {}) table ({}, {})", s, k, z, rr, cc, r, c), json!({"slice": s, "knot": k}));
                                return;
                            }
                        }
                        Some(_) => {
                            ctx.violation("lookup failed at a tabulated time", format!("slice {} knot {}", s, k), json!({"slice": s, "knot": k, "z": z}));
                            return;
                        }
                        None => return,
                    }
                    for tt in [next_up(t), next_down(t)] {
                        match probe(ctx, &d, z, tt, "knot+-1ulp") {
                            Some(Look::Ok(rr, cc)) => {
                                if rr < rmin - 1e-12 || rr > rmax + 1e-12 || cc < -1e-12 || cc > cmax + 1e-12 || (rr - r).abs() > 1e-9 {
                                    ctx.violation("radius / Lorentz correction out of the slice's tabulated bounds or discontinuous at a knot", format!("slice {} knot {} t {:e}: r {} c {}", s, k, tt, rr, cc), json!({"slice": s, "knot": k, "z": z, "t": tt}));
                                    return;
                                }
                            }
                            Some(_) => {}
                            None => return,
                        }
                    }
                }
                for t in [-1e-6, -1e-9, next_down(tab[0].0), next_up(tab[n - 1].0), tab[n - 1].0 + 1e-9, 5e-6, f64::MAX, -f64::MAX, f64::INFINITY, f64::NEG_INFINITY] {
                    if probe(ctx, &d, z, t, "t outside").is_none() {
                        return;
                    }
                }
                // symmetric in z, bit for bit
                for _ in 0..20 {
                    let t = tab[0].0 + (tab[n - 1].0 - tab[0].0) * rng.f();
                    ctx.eval();
                    if lib_look(z, t) != lib_look(-z, t) {
                        ctx.violation("lookup differs between z and -z", format!("z {} t {}", z, t), json!({"z": z, "t": t}));
                        return;
                    }
                    ctx.count("z / -z pairs identical");
                }
            }
        }
        // 1 ns scan: monotone, bounded, and the 8 ns step
        let z = if s % 2 == 0 { ub } else { -0.5 * (prev_ub + ub) };
        let tmax = tab[n - 1].0;
        let step = if thorough { 0.25e-9 } else { 1e-9 };
        let mut prev: Option<f64> = None;
        let mut bad_knots: Vec<usize> = Vec::new();
        let mut t = tab[0].0;
        while t <= tmax {
            let Some(Look::Ok(r, c)) = probe(ctx, &d, z, t, "scan") else {
                ctx.violation("scan lookup failed inside the range", format!("slice {} t {}", s, t), json!({"z": z, "t": t}));
                return;
            };
            if r < rmin - 1e-12 || r > rmax + 1e-12 || c < -1e-12 || c > cmax + 1e-12 {
                ctx.violation("radius or Lorentz correction outside the slice's tabulated range", format!("slice {} t {} r {} c {}", s, t, r, c), json!({"z": z, "t": t}));
                return;
            }
            if let Some(p) = prev {
                if r > p + 1e-13 {
                    ctx.violation("radius increases with drift time", format!("slice {} t {} r {} previous {}", s, t, r, p), json!({"z": z, "t": t}));
                    return;
                }
            }
            prev = Some(r);
            if t + 8e-9 <= tmax {
                if let Some(Look::Ok(r2, _)) = probe(ctx, &d, z, t + 8e-9, "scan+8ns") {
                    if (r - r2).abs() >= 0.5e-3 {
                        // attribute to the knot interval(s) the pair spans
                        let k = ((t - tab[0].0) / 8e-9).floor() as usize;
                        let steep = |k: usize| k + 1 < n && (tab[k].1 - tab[k + 1].1).abs() >= 0.5e-3;
                        if !steep(k) && !steep(k + 1) {
                            ctx.violation("radius changes by >= 0.5 mm over 8 ns although the table does not", format!("slice {} t {} step {}", s, t, (r - r2).abs()), json!({"z": z, "t": t}));
                            return;
                        }
                    }
                }
            }
            t += step;
        }
        // knot-aligned pairs define the signature of the known finding for this slice
        for k in 0..n - 1 {
            if let (Some(Look::Ok(r1, _)), Some(Look::Ok(r2, _))) = (probe(ctx, &d, z, tab[k].0, "knot pair"), probe(ctx, &d, z, tab[k + 1].0, "knot pair")) {
                if (r1 - r2).abs() >= 0.5e-3 {
                    bad_knots.push(k);
                }
            }
        }
        if !bad_knots.is_empty() {
            let key = format!("step>=0.5mm/8ns slice {} knots {:?}", s, bad_knots);
            ctx.violation(&key, format!("radius step >= 0.5 mm between lookups 8 ns apart in z slice {} (upper bound {} m) at knot intervals {:?}", s, ub, bad_knots), json!({"slice": s, "z": z, "knots": bad_knots}));
        } else {
            ctx.count("slices with every 8 ns step < 0.5 mm");
        }
        ctx.count("slices scanned");
    });
    // ---- history: consecutive lookups with the same t and slowly changing z (descending and ascending through every
    // slice bound), and with the same z and changing t: each lookup still has to equal the reference
    ctx.cases("sweeps", 8, |ctx, i, rng| {
        let t = match i {
            0 => 0.0,
            1 => -0.0,
            2 => 8e-9,
            3 => 3.96e-6,
            _ => rng.range(0.0, 3.9e-6),
        };
        let step = if thorough { 0.00005 } else { 0.00025 };
        let mut z = 1.1525;
        while z > -0.002 {
            let zz = if i % 2 == 0 { z } else { -z };
            if probe(ctx, &d, zz, t, "z sweep (descending |z|) at fixed t").is_none() {
                return;
            }
            z -= step;
        }
        let mut z = 0.0;
        while z < 1.1525 {
            if probe(ctx, &d, z, t, "z sweep (ascending |z|) at fixed t").is_none() {
                return;
            }
            z += step * 1.7;
        }
        ctx.count("fixed-t sweeps of z across all slice bounds");
    });
    // ---- the azimuth: returned phi = avalanche phi - correction for any avalanche azimuth (the correction must not
    // depend on phi, nor be wrapped)
    ctx.cases("azimuth", 92, |ctx, s, rng| {
        let (tab, ub) = (&d[s as usize].0, d[s as usize].1);
        let prev_ub = if s == 0 { 0.0 } else { d[s as usize - 1].1 };
        let z = 0.5 * (prev_ub + ub);
        for _ in 0..ctx.tier.pick(6, 40) {
            let t = tab[0].0 + (tab[tab.len() - 1].0 - tab[0].0) * rng.f();
            let (r, _) = ref_look(&d, z, t);
            let Look::Ok(_, c_ref) = r else { continue };
            for phi in [0.0, 1.0, -1.0, 6.2, 2.0 * std::f64::consts::PI, 6.3, 7.0, -7.0, 12.0, 100.0, -100.0, 1e-9, 3.2, -3.2] {
                ctx.eval();
                match guard(|| lib_look_phi(z, t, phi)) {
                    Ok(Look::Ok(_, c)) if (c - c_ref).abs() <= 1e-12 * (1.0 + phi.abs()) => ctx.count("azimuth probes (phi - correction) exact"),
                    Ok(other) => {
                        ctx.violation("returned azimuth is not the avalanche azimuth minus the Lorentz correction", format!("slice {} z {} t {:e} phi {}: library {:?}, correction should be {}", s, z, t, phi, other, c_ref), json!({"z": z, "t": t, "phi": phi}));
                        return;
                    }
                    Err(p) => {
                        ctx.panic_violation("SpacePoint::try_from(Avalanche)", &p, json!({"z": z, "t": t, "phi": phi}));
                        return;
                    }
                }
            }
        }
    });
    // ---- lookups from 8 threads at once, each thread staying in its own z slices (far apart) and jumping between times,
    // every answer against the reference: state shared between threads must not leak from one lookup into another
    ctx.cases("concurrent", ctx.tier.pick(4, 32), |ctx, i, rng| {
        let nslices = d.len();
        let rounds = ctx.tier.pick(20_000usize, 100_000);
        let seeds: Vec<u64> = (0..8).map(|_| rng.next()).collect();
        let bad: Vec<Option<String>> = std::thread::scope(|s| {
            let hs: Vec<_> = (0..8usize)
                .map(|k| {
                    let (d, seed) = (&d, seeds[k]);
                    s.spawn(move || {
                        let mut r = Rng::new(seed);
                        let s0 = (k * nslices / 8 + i as usize) % nslices;
                        for n in 0..rounds {
                            let sl = (s0 + r.usize(3)) % nslices;
                            let lo = if sl == 0 { 0.0 } else { d[sl - 1].1 };
                            let hi = d[sl].1;
                            let z = match r.below(4) {
                                0 => hi,
                                1 => next_up(lo),
                                _ => lo + (hi - lo) * r.range(0.001, 0.999),
                            } * if r.bool() { 1.0 } else { -1.0 };
                            let tmax = d[sl].0[d[sl].0.len() - 1].0;
                            let t = if r.below(10) == 0 { tmax * r.range(1.0, 1.1) } else { tmax * r.range(0.0, 1.0) };
                            let l = lib_look(z, t);
                            let (want, either) = ref_look(d, z, t);
                            let ok = match (l, want) {
                                (Look::Ok(a, b), Look::Ok(c, e)) => (a - c).abs() <= 1e-12 && (b - e).abs() <= 1e-12,
                                (Look::ErrT, Look::ErrT) | (Look::ErrZ, Look::ErrZ) => true,
                                (Look::ErrT, Look::ErrZ) => either,
                                _ => false,
                            };
                            if !ok {
                                return Some(format!("thread {} lookup {}: z={:e} t={:e} library {:?} reference {:?}", k, n, z, t, l, want));
                            }
                        }
                        None
                    })
                })
                .collect();
            hs.into_iter().map(|h| h.join().unwrap_or(Some("thread panicked".into()))).collect()
        });
        ctx.eval_n(8 * rounds as u64);
        match bad.into_iter().flatten().next() {
            Some(b) => ctx.violation("lookup value depends on what other threads look up at the same time", b, json!({})),
            None => ctx.count_n("concurrent lookups agreeing with the reference", 8 * rounds as u64),
        }
    });
    ctx.cases("signed-zero", 1, |ctx, _i, _rng| {
        for (s, (tab, ub)) in d.iter().enumerate() {
            let prev_ub = if s == 0 { 0.0 } else { d[s - 1].1 };
            for z in [*ub, -*ub, 0.5 * (prev_ub + ub)] {
                for t in [-0.0f64, 0.0] {
                    match probe(ctx, &d, z, t, "t = +-0.0") {
                        Some(Look::Ok(r, _)) if (r - tab[0].1).abs() <= 1e-12 => ctx.count("lookups at t = +-0.0 reproduce the first knot"),
                        Some(other) => {
                            if tab[0].0 == 0.0 {
                                ctx.violation("lookup at t = -0.0 / +0.0 does not reproduce the first tabulated radius", format!("slice {} z {} t {:?}: {:?}", s, z, t, other), json!({"z": z, "t_bits": t.to_bits()}));
                                return;
                            }
                        }
                        None => return,
                    }
                }
            }
        }
    });
    ctx.cases("zrange", 1, |ctx, _i, _rng| {
        for z in [next_up(zmax), 1.2, 1.3, -next_up(zmax), -1.3, 1e9, f64::MAX, f64::INFINITY, f64::NEG_INFINITY] {
            for t in [1e-6, 0.0, -1.0, 1.0] {
                probe(ctx, &d, z, t, "z outside");
            }
        }
        for z in [zmax, -zmax, 0.0, -0.0, f64::MIN_POSITIVE, -f64::MIN_POSITIVE] {
            match probe(ctx, &d, z, 1e-6, "z at the bound") {
                Some(Look::Ok(..)) => {}
                _ => ctx.violation("lookup failed at |z| = largest bound or at z = 0", format!("z {}", z), json!({"z": z})),
            }
        }
    });
    let n = ctx.tier.pick(300_000, 100_000_000);
    ctx.cases("random", n, |ctx, _i, rng| {
        let z = rng.range(-1.3, 1.3);
        let t = rng.range(-1e-6, 5e-6);
        if let Some(Look::Ok(..)) = probe(ctx, &d, z, t, "random") {
            // 8 ns apart, away from the steep knots: covered by the scan; here just symmetry
            if lib_look(-z, t) != lib_look(z, t) {
                ctx.violation("lookup differs between z and -z", format!("z {} t {}", z, t), json!({"z": z, "t": t}));
            }
        }
    });
    ctx.require("slices scanned", 92);
    ctx.require("lookups that succeeded", 10000);
    ctx.require("lookups that failed as required", 100);
}
