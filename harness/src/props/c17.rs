//! C17 – deconvolution is non-negative, scale-covariant and equals its plain definition.
use crate::core::*;
use crate::evgen::*;
use crate::sim::Model;
use alpha_g_physics::verif_hooks as vh;
use serde_json::json;

pub fn prop() -> Prop {
    Prop {
        id: "C17",
        level: "exploration",
        rule: "pad waveforms of 1..=700 samples (0..=8 response-shaped pulses of amplitude 1..1e4 at arbitrary positions incl. the last look-ahead samples, noise sigma in {0, 0.5, 3, 30}, integer-rounded and not): pad_deconvolution (hook) vs a naive one-sample-at-a-time greedy reference, bit for bit, plus finiteness / non-negativity / length; wire blocks of every length at every ring position with differing per-wire lengths: channel count, per-channel length, finiteness, non-negativity; isolated wire pulse of amplitude a at k <= len-18 on every wire: recovered a at k (rel. err < 1e-6), < 1e-6 a elsewhere; whole events (forward model and random hit patterns) scaled by 2^k, k in {-20,-3,1,2,7,40}: amplitudes scale exactly, t / wire / z unchanged (hook route and hook-free bank route for k=1,2). Non-trivial = distinct waveforms / events with >= 1 non-zero output. Also: every pad waveform length 1..=40; history independence of the wire deconvolution (event A then event B on the same block with other lengths vs a fresh thread); the same block with differing lengths at seam-wrapping and plain placements (bit equality); scaling exponents -40..40 on noise-free events. Round 5: shaped pad waveforms (long negative run then positive tail; large early pulse whose last, positive response bin falls on small non-negative noise; one-signed, alternating, constant, sloping). Round 7: short shaped waveforms (5..=24 samples: one big positive sample early, then only small negative ones).",
        assumptions: &["response functions re-binned by the harness from the shipped JSON files (16 ns bins, same summation order)", "power-of-two scaling is exact in binary floating point, so bit equality is the right test"],
        profiles: release_only,
        shards: shards16,
        no_progress_cpu_s: Some(300),
        run,
        finalize: None,
    }
}

/// the plain definition: advance one sample at a time; deconvolve iff the whole window is negative
pub fn naive_greedy(signal: &[f64], response: &[f64], offset: usize, look: usize) -> (f64, Vec<f64>) {
    let rw = &response[offset..offset + look];
    let mut res = signal.to_vec();
    let mut input = vec![0.0; signal.len()];
    let mut i = 0;
    while i + offset + look <= res.len() {
        let w = &res[i + offset..i + offset + look];
        if w.iter().all(|x| *x < 0.0) {
            let mut val = f64::INFINITY;
            for (s, r) in w.iter().zip(rw) {
                val = f64::min(val, s / r);
            }
            input[i] = val;
            for (s, r) in res[i..].iter_mut().zip(response) {
                *s -= val * r;
            }
        }
        i += 1;
    }
    (res.iter().map(|x| x.powi(2)).sum(), input)
}
/// first strict minimum of the squared residual over offsets x look-aheads
pub fn naive_ls(signal: &[f64], response: &[f64], offs: std::ops::RangeInclusive<usize>, looks: std::ops::RangeInclusive<usize>) -> Vec<f64> {
    let mut best = f64::INFINITY;
    let mut bi = Vec::new();
    for o in offs {
        for l in looks.clone() {
            let (r, inp) = naive_greedy(signal, response, o, l);
            if r < best {
                best = r;
                bi = inp;
            }
        }
    }
    bi
}

pub fn gen_waveform(rng: &mut Rng, resp: &[f64], len: usize) -> Vec<f64> {
    let mut sig = vec![0.0f64; len];
    let np = rng.below(9);
    for _ in 0..np {
        let k = if rng.chance(0.25) { len.saturating_sub(1 + rng.usize(26)) } else { rng.usize(len) };
        let a = 10f64.powf(rng.range(0.0, 4.0));
        for (j, r) in resp.iter().enumerate() {
            if k + j < len {
                sig[k + j] += a * r;
            }
        }
    }
    let noise = *rng.pick(&[0.0, 0.5, 3.0, 30.0]);
    let round = rng.bool();
    for s in sig.iter_mut() {
        *s += noise * rng.gauss();
        if round {
            *s = s.round();
        }
    }
    sig
}

fn bits(v: &[f64]) -> Vec<u64> {
    v.iter().map(|x| x.to_bits()).collect()
}

fn run(ctx: &mut Ctx) {
    let m = Model::load(&repo_root());
    // ---- 1. pad deconvolution == plain definition
    let n = ctx.tier.pick(4000, 200_000);
    ctx.cases("pads", n, |ctx, i, rng| {
        ctx.eval();
        let len = if i % 50 == 0 { 1 + rng.usize(30) } else { 1 + rng.usize(700) };
        let sig = gen_waveform(rng, &m.pr, len);
        let got = match guard(|| vh::pad_deconvolution(&sig)) {
            Ok(g) => g,
            Err(p) => {
                ctx.panic_violation("pad_deconvolution", &p, json!({"signal_bits": bits(&sig)}));
                return;
            }
        };
        let exp = naive_ls(&sig, &m.pr, 3..=5, 7..=12);
        if i == 1 {
            ctx.sample(json!({"kind": "pad waveform", "len": len, "first_samples": sig.iter().take(12).collect::<Vec<_>>(), "nonzero_outputs": got.iter().filter(|x| **x != 0.0).count()}));
        }
        if got.len() != sig.len() {
            ctx.violation("pad deconvolution: output length differs from input length", format!("{} vs {}", got.len(), sig.len()), json!({"signal_bits": bits(&sig)}));
            return;
        }
        if got.iter().any(|v| !v.is_finite() || *v < 0.0) {
            ctx.violation("pad deconvolution: negative or non-finite amplitude", String::new(), json!({"signal_bits": bits(&sig)}));
            return;
        }
        if bits(&got) != bits(&exp) {
            let k = got.iter().zip(&exp).position(|(a, b)| a.to_bits() != b.to_bits()).unwrap_or(0);
            ctx.violation("pad deconvolution differs from the plain greedy definition", format!("len {} first difference at sample {}: {:e} vs {:e}", len, k, got[k], exp[k]), json!({"signal_bits": bits(&sig)}));
            return;
        }
        ctx.count("pad waveforms bit-identical to the naive definition");
        if got.iter().any(|v| *v > 0.0) {
            ctx.count("pad waveforms with >= 1 non-zero output");
            let mut d = Digest::new();
            for x in &sig {
                d.f64(*x);
            }
            ctx.nontrivial(d.0);
        }
    });
    // ---- 1a. shaped waveforms the random pulse generator does not make: a long negative run followed by a positive-only
    // tail (every grid setting then fits worse than "no avalanche"); a large early pulse whose response ends inside the
    // waveform (the last response bin is positive) over small noise; one-signed, alternating and constant waveforms
    let n = ctx.tier.pick(3000, 150_000);
    ctx.cases("shaped-pads", n, |ctx, i, rng| {
        ctx.eval();
        let round = rng.bool();
        let fin = |x: f64| if round { x.round() } else { x };
        let sig: Vec<f64> = match i % 6 {
            0 | 1 => {
                let lead = rng.usize(20);
                let run = 12 + rng.usize(50);
                let tail = 1 + rng.usize(40);
                let lo = 10f64.powf(rng.range(0.0, 2.7));
                let hi = 10f64.powf(rng.range(0.0, 2.5));
                let mut v: Vec<f64> = (0..lead).map(|_| fin(3.0 * rng.gauss())).collect();
                v.extend((0..run).map(|_| fin(-(0.5 + rng.range(0.0, lo)))));
                v.extend((0..tail).map(|_| fin(rng.range(0.0, hi))));
                v
            }
            2 | 3 => {
                let len = 386 + rng.usize(315);
                let a = rng.range(2000.0, 12000.0);
                let k = rng.usize(len - 385);
                let sigma = *rng.pick(&[0.0, 1.0, 5.0, 10.0]);
                let mut v = vec![0.0f64; len];
                for (j, r) in m.pr.iter().enumerate() {
                    if k + j < len {
                        v[k + j] += a * r;
                    }
                }
                for x in v.iter_mut() {
                    *x = fin(*x + sigma * rng.gauss());
                }
                // the sample under the last (positive) response bin: small and non-negative, its neighbours negative
                let j = k + m.pr.len() - 1;
                if j < len && i % 6 == 3 {
                    v[j] = fin(rng.range(0.0, 0.0021 * a));
                    for d in 1..=12 {
                        if j + d < len {
                            v[j + d] = fin(-rng.range(0.5, 12.0));
                        }
                        if j >= d && v[j - d] >= 0.0 {
                            v[j - d] = fin(-rng.range(0.5, 12.0));
                        }
                    }
                }
                v
            }
            4 if rng.bool() => {
                // 5..=24 samples: a few small ones, one big positive sample early, then only small negative ones (every
                // window that fits reconstructs something and makes the fit worse)
                let len = 5 + rng.usize(20);
                let big_at = rng.usize(4);
                (0..len).map(|k| fin(if k == big_at { rng.range(100.0, 2000.0) } else if k < big_at { rng.range(0.0, 15.0) } else { -rng.range(0.5, 6.0) })).collect()
            }
            4 => {
                let len = 1 + rng.usize(200);
                let c = rng.range(-50.0, 50.0);
                match rng.below(4) {
                    0 => vec![fin(c); len],
                    1 => (0..len).map(|k| fin(if k % 2 == 0 { c } else { -c })).collect(),
                    2 => (0..len).map(|_| fin(-rng.range(0.0, 100.0))).collect(),
                    _ => (0..len).map(|_| fin(rng.range(0.0, 100.0))).collect(),
                }
            }
            _ => {
                // a genuine pulse cut off by the end of the waveform, over a sloping baseline
                let len = 20 + rng.usize(120);
                let mut v = gen_waveform(rng, &m.pr, len);
                let slope = rng.range(-0.5, 0.5);
                for (k, x) in v.iter_mut().enumerate() {
                    *x = fin(*x + slope * k as f64);
                }
                v
            }
        };
        let len = sig.len();
        let got = match guard(|| vh::pad_deconvolution(&sig)) {
            Ok(g) => g,
            Err(p) => {
                ctx.panic_violation("pad_deconvolution", &p, json!({"signal_bits": bits(&sig)}));
                return;
            }
        };
        let exp = naive_ls(&sig, &m.pr, 3..=5, 7..=12);
        let exp = if exp.is_empty() { vec![0.0; len] } else { exp };
        if got.len() != len || got.iter().any(|v| !v.is_finite() || *v < 0.0) {
            ctx.violation("pad deconvolution: wrong length, negative or non-finite amplitude", format!("len {}", len), json!({"signal_bits": bits(&sig)}));
            return;
        }
        if bits(&got) != bits(&exp) {
            let k = got.iter().zip(&exp).position(|(a, b)| a.to_bits() != b.to_bits()).unwrap_or(0);
            ctx.violation("pad deconvolution differs from the plain greedy definition", format!("shaped waveform (kind {}) of {} samples, first difference at sample {}: {:e} vs {:e}", i % 6, len, k, got[k], exp[k]), json!({"signal_bits": bits(&sig)}));
            return;
        }
        ctx.count(&format!("shaped pad waveforms bit-identical to the naive definition (kind {})", i % 6));
        if got.iter().any(|v| *v > 0.0) {
            ctx.count("shaped pad waveforms with >= 1 non-zero output");
        }
    });
    // ---- 1b. short waveforms: every length 1..=40 (the offset / look-ahead grid only partly fits)
    let per_len = ctx.tier.pick(150, 5000);
    ctx.cases("short-pads", 40 * per_len, |ctx, i, rng| {
        ctx.eval();
        let len = 1 + (i % 40) as usize;
        let mut sig = gen_waveform(rng, &m.pr, len);
        if i % 3 == 0 {
            // mostly negative waveforms (a pulse already under way at sample 0)
            let a = 10f64.powf(rng.range(0.5, 3.0));
            for (j, s) in sig.iter_mut().enumerate() {
                *s += a * m.pr[(j + rng.usize(3)).min(m.pr.len() - 1)];
                if i % 2 == 0 {
                    *s = s.round();
                }
            }
        }
        let got = match guard(|| vh::pad_deconvolution(&sig)) {
            Ok(g) => g,
            Err(p) => {
                ctx.panic_violation("pad_deconvolution", &p, json!({"signal_bits": bits(&sig)}));
                return;
            }
        };
        let exp = naive_ls(&sig, &m.pr, 3..=5, 7..=12);
        // a waveform too short for every window: the definition leaves all amplitudes at zero
        let exp = if exp.is_empty() { vec![0.0; len] } else { exp };
        if got.len() != len || got.iter().any(|v| !v.is_finite() || *v < 0.0) {
            ctx.violation("pad deconvolution: wrong length, negative or non-finite amplitude", format!("len {}", len), json!({"signal_bits": bits(&sig)}));
            return;
        }
        if bits(&got) != bits(&exp) {
            ctx.violation("pad deconvolution differs from the plain greedy definition", format!("short waveform of {} samples", len), json!({"signal_bits": bits(&sig), "signal": sig}));
            return;
        }
        ctx.count("short pad waveforms (1..=40 samples) bit-identical to the naive definition");
    });
    // ---- 2. wire blocks: shape, finiteness, non-negativity
    let n = ctx.tier.pick(600, 20_000);
    ctx.cases("wire-blocks", n, |ctx, i, rng| {
        ctx.eval();
        let occ = occupancy(rng, i % 6);
        let len = 30 + rng.usize(500);
        let nh = 1 + rng.usize(6);
        let noise = *rng.pick(&[0.0, 1.0, 3.0]);
        let (mut wires, _) = random_hits(&m, rng, &occ, nh, len, noise, true);
        let differing = i % 2 == 0;
        if differing {
            for (_, s) in wires.iter_mut() {
                let l = s.len() - rng.usize(8).min(s.len() - 1);
                s.truncate(l);
            }
        }
        let mut arr: [Option<Vec<f64>>; 256] = [(); 256].map(|_| None);
        for (w, s) in &wires {
            arr[*w] = Some(s.clone());
        }
        let out = match guard(|| vh::wire_deconvolution(&arr)) {
            Ok(o) => o,
            Err(p) => {
                ctx.panic_violation("wire deconvolution", &p, json!({"occupied": wires.len()}));
                return;
            }
        };
        let input = || json!({"wires": wires.iter().map(|(w, s)| json!({"wire": w, "signal_bits": bits(s)})).collect::<Vec<_>>()});
        let mut seen = [false; 256];
        for (w, v) in &out {
            if seen[*w] || arr[*w].is_none() {
                ctx.violation("wire deconvolution: output channel without (or duplicated for) an input channel", format!("wire {}", w), input());
                return;
            }
            seen[*w] = true;
            if v.iter().any(|x| !x.is_finite() || *x < 0.0) {
                ctx.violation("wire deconvolution: negative or non-finite amplitude", format!("wire {}", w), input());
                return;
            }
            let n_in = arr[*w].as_ref().unwrap().len();
            if v.len() != n_in {
                ctx.violation("wire deconvolution: output length differs from the channel's input length", format!("wire {}: {} output samples for {} input samples", w, v.len(), n_in), input());
                return;
            }
        }
        if out.len() != wires.len() {
            ctx.violation("wire deconvolution: channel count differs", format!("{} out, {} in", out.len(), wires.len()), input());
            return;
        }
        ctx.count(if differing { "wire blocks with differing per-wire lengths: shape ok" } else { "wire blocks with equal lengths: shape ok" });
        if out.iter().any(|(_, v)| v.iter().any(|x| *x > 0.0)) {
            let mut d = Digest::new();
            for (w, s) in &wires {
                d.u64(*w as u64);
                for x in s {
                    d.f64(*x);
                }
            }
            ctx.nontrivial(d.0);
        }
    });
    // ---- 2b. history independence: event A, then event B with the same block and the same first-wire length but other
    // wires longer / shorter; B's result must equal B evaluated in a thread without history, and have B's lengths
    let n = ctx.tier.pick(300, 8000);
    ctx.cases("wire-history", n, |ctx, i, rng| {
        ctx.eval();
        let occ = occupancy(rng, [1u64, 4, 5][(i % 3) as usize]);
        let len = 40 + rng.usize(100);
        let (wa, _) = random_hits(&m, rng, &occ, 2, len, 0.0, true);
        if wa.is_empty() {
            return;
        }
        // B: same wires; the first wire of every block keeps its length, the others grow by 5..60 samples and get a late pulse
        let mut wb = wa.clone();
        let first_of_block: Vec<usize> = vh::contiguous_ranges(&{
            let mut arr: [Option<Vec<f64>>; 256] = [(); 256].map(|_| None);
            for (w, s) in &wa {
                arr[*w] = Some(s.clone());
            }
            arr
        })
        .iter()
        .map(|r| r.0)
        .collect();
        let grow = 5 + rng.usize(56);
        for (w, s) in wb.iter_mut() {
            if !first_of_block.contains(w) {
                let k = s.len() + rng.usize(grow.saturating_sub(20).max(1));
                s.extend(vec![0.0; grow]);
                if rng.chance(0.3) {
                    for (j, r) in m.wr.iter().enumerate() {
                        if k + j < s.len() {
                            s[k + j] += (500.0 * r).round();
                        }
                    }
                }
            }
        }
        let arr_of = |ws: &Wires| {
            let mut arr: [Option<Vec<f64>>; 256] = [(); 256].map(|_| None);
            for (w, s) in ws {
                arr[*w] = Some(s.clone());
            }
            arr
        };
        let _ = guard(|| vh::wire_deconvolution(&arr_of(&wa)));
        let in_history = guard(|| vh::wire_deconvolution(&arr_of(&wb)));
        let wb2 = wb.clone();
        let fresh = fresh_thread(move || {
            let mut arr: [Option<Vec<f64>>; 256] = [(); 256].map(|_| None);
            for (w, s) in &wb2 {
                arr[*w] = Some(s.clone());
            }
            vh::wire_deconvolution(&arr)
        });
        match (in_history, fresh) {
            (Ok(a), Ok(b)) => {
                let same = a.len() == b.len() && a.iter().zip(&b).all(|(x, y)| x.0 == y.0 && bits(&x.1) == bits(&y.1));
                let lens_ok = a.iter().all(|(w, v)| wb.iter().find(|x| x.0 == *w).map(|x| x.1.len()) == Some(v.len()));
                if !same || !lens_ok {
                    ctx.violation(if !same { "wire deconvolution depends on what was deconvolved before (differs from a fresh thread)" } else { "wire deconvolution: output length differs from the channel's input length" }, format!("{} wires, first-of-block lengths unchanged, others grown by {}", wb.len(), grow), json!({"wires_a": wa.iter().map(|(w, s)| json!([w, s.len()])).collect::<Vec<_>>(), "wires_b": wb.iter().map(|(w, s)| json!([w, s.len()])).collect::<Vec<_>>()}));
                } else {
                    ctx.count("wire deconvolutions identical with and without call history");
                }
            }
            (Err(p), _) | (_, Err(p)) => ctx.panic_violation("wire deconvolution", &p, json!({})),
        }
    });
    // ---- 2c. "wherever the wire sits on the ring": a block with differing per-wire lengths and a late pulse on its
    // longest wire gives bit-identical amplitudes whether it wraps the 255/0 seam or not
    let n = ctx.tier.pick(200, 6000);
    ctx.cases("wrap-placement", n, |ctx, i, rng| {
        ctx.eval();
        let nw = 2 + rng.usize(24);
        let short = 60 + rng.usize(100);
        let long = short + 20 + rng.usize(200);
        let long_pos = match i % 3 {
            0 => nw - 1,
            1 => 0,
            _ => rng.usize(nw),
        };
        let k = short + rng.usize(long - short - 18);
        let a = 10f64.powf(rng.range(1.5, 3.0));
        let mut sigs: Vec<Vec<f64>> = (0..nw).map(|j| vec![0.0; if j == long_pos { long } else { short - rng.usize(5) }]).collect();
        for d in -4i32..=4 {
            let j = long_pos as i32 + d;
            if j < 0 || j >= nw as i32 {
                continue;
            }
            let f = crate::sim::NF[d.unsigned_abs() as usize];
            let s = &mut sigs[j as usize];
            for (q, r) in m.wr.iter().enumerate() {
                if k + q < s.len() {
                    s[k + q] += (a * f * r).round();
                }
            }
        }
        let place = |start: usize| -> Result<Vec<Vec<u64>>, PanicInfo> {
            let mut arr: [Option<Vec<f64>>; 256] = [(); 256].map(|_| None);
            for (j, s) in sigs.iter().enumerate() {
                arr[(start + j) % 256] = Some(s.clone());
            }
            guard(|| {
                let out = vh::wire_deconvolution(&arr);
                (0..nw).map(|j| out.iter().find(|x| x.0 == (start + j) % 256).map(|x| bits(&x.1)).unwrap_or_default()).collect()
            })
        };
        let plain = place(40 + rng.usize(100));
        // wrapping placements: the long wire before, at and after the seam
        for start in [256 - nw + 1 + rng.usize(nw - 1), (256 - long_pos) % 256, (256 + 255 - long_pos) % 256, 256 - 1] {
            let wrapped = place(start % 256);
            match (&plain, &wrapped) {
                (Ok(p), Ok(w)) => {
                    if p != w {
                        ctx.violation("wire deconvolution of a block depends on where the block sits on the ring", format!("{} wires, longest ({} samples) at position {} of the block, pulse at sample {}: placement starting at wire {} differs from a placement away from the seam", nw, long, long_pos, k, start % 256), json!({"lengths": sigs.iter().map(|s| s.len()).collect::<Vec<_>>(), "k": k, "a": a, "start": start % 256}));
                        return;
                    }
                    ctx.count("seam-wrapping placements identical to a placement away from the seam");
                }
                (Err(pn), _) | (_, Err(pn)) => {
                    ctx.panic_violation("wire deconvolution", pn, json!({}));
                    return;
                }
            }
        }
        // and the pulse itself is recovered on the long wire (its neighbours are physically consistent up to their own length)
        if let Ok(p) = &plain {
            let rec = &p[long_pos];
            if rec.len() != long {
                ctx.violation("wire deconvolution: output length differs from the channel's input length", String::new(), json!({}));
            }
        }
    });
    // ---- 3. isolated pulse recovery on every wire
    let reps = ctx.tier.pick(2, 40);
    ctx.cases("wire-pulse", 256 * reps, |ctx, i, rng| {
        ctx.eval();
        let wire = (i % 256) as usize;
        let len = 40 + rng.usize(660);
        let k = match rng.below(4) {
            0 => len - 18,
            1 => 0,
            _ => rng.usize(len - 18 + 1),
        };
        let a = 10f64.powf(rng.range(0.0, 4.0));
        let mut sig = vec![0.0; len];
        for (j, r) in m.wr.iter().enumerate() {
            if k + j < len {
                sig[k + j] += a * r;
            }
        }
        let mut arr: [Option<Vec<f64>>; 256] = [(); 256].map(|_| None);
        arr[wire] = Some(sig);
        let out = match guard(|| vh::wire_deconvolution(&arr)) {
            Ok(o) => o,
            Err(p) => {
                ctx.panic_violation("wire deconvolution", &p, json!({"wire": wire, "len": len, "k": k, "a": a}));
                return;
            }
        };
        let input = json!({"wire": wire, "len": len, "k": k, "a": a});
        if out.len() != 1 || out[0].0 != wire || out[0].1.len() != len {
            ctx.violation("isolated wire pulse: wrong output shape", String::new(), input);
            return;
        }
        let rec = &out[0].1;
        for (t, v) in rec.iter().enumerate() {
            let bad = if t == k { ((v - a) / a).abs() >= 1e-6 } else { v.abs() >= 1e-6 * a };
            if bad {
                ctx.violation("isolated wire pulse not recovered", format!("wire {} len {} k {} a {}: sample {} = {}", wire, len, k, a, t, v), input);
                return;
            }
        }
        ctx.count("isolated wire pulses recovered");
        ctx.nontrivial(fnv(format!("{} {} {} {}", wire, len, k, a.to_bits()).as_bytes()));
    });
    // ---- 4. power-of-two scaling of whole events
    let n = ctx.tier.pick(48, 1500);
    let inv = crate::maps::inverse(u32::MAX);
    ctx.cases("scaling", n, |ctx, i, rng| {
        let (wires, pads) = if i % 2 == 0 {
            let noise = *rng.pick(&[0.0, 1.5]);
            let (w, p, _) = sim_event(&m, rng, noise);
            (w, p)
        } else {
            let occ = occupancy(rng, if i % 4 == 1 { 4 } else { 5 });
            let nh = 1 + rng.usize(8);
            // half of these events are noise-free: quiet channels next to a clean pulse
            let noise = if i % 8 < 4 { 0.0 } else { 1.0 };
            random_hits(&m, rng, &occ, nh, 300, noise, true)
        };
        let base = match guard(|| vh::main_event_from_signals(wires.clone(), pads.clone(), 0).avalanches()) {
            Ok(b) => b,
            Err(p) => {
                ctx.panic_violation("avalanches()", &p, json!({}));
                return;
            }
        };
        if base.is_empty() {
            ctx.count("scaling: events without avalanches (skipped)");
            return;
        }
        for k in [-40i32, -20, -10, -3, 1, 2, 7, 10, 20, 40] {
            ctx.eval();
            let f = 2f64.powi(k);
            let (w2, p2) = scale(&wires, &pads, f);
            let sc = match guard(|| vh::main_event_from_signals(w2, p2, 0).avalanches()) {
                Ok(b) => b,
                Err(p) => {
                    ctx.panic_violation("avalanches()", &p, json!({"scale_exp": k}));
                    return;
                }
            };
            let same = sc.len() == base.len()
                && base.iter().zip(&sc).all(|(a, b)| {
                    let (ka, kb) = (key(a), key(b));
                    ka.0 == kb.0 && ka.1 == kb.1 && ka.4 == kb.4 && (a.wire_amplitude * f).to_bits() == b.wire_amplitude.to_bits() && (a.pad_amplitude * f).to_bits() == b.pad_amplitude.to_bits() && a.phi == b.phi
                });
            if !same {
                ctx.violation("scaling by a power of two does not scale the avalanches exactly", format!("2^{}: {} vs {} avalanches", k, sc.len(), base.len()), json!({"scale_exp": k, "wires": wires.iter().map(|(w, s)| json!({"wire": w, "signal_bits": bits(s)})).collect::<Vec<_>>(), "n_pads": pads.len()}));
                return;
            }
            ctx.count("event scalings exact");
        }
        let mut d = Digest::new();
        for (w, s) in &wires {
            d.u64(*w as u64);
            for x in s {
                d.f64(*x);
            }
        }
        ctx.nontrivial(d.0);
        // hook-free: raw samples around the simulation baselines, doubled deviations (k = 1)
        if i % 4 <= 1 {
            let mk = |f: f64| -> Option<Vec<(u64, usize, u64, u64, u64)>> {
                let mut banks = Vec::new();
                for (w, s) in &wires {
                    let mut raw = vec![3000i16; 100];
                    raw.extend(s.iter().map(|x| (3000.0 + x * f).round().clamp(-32768.0, 32767.0) as i16));
                    if raw.len() < 64 {
                        raw.resize(64, 3000);
                    }
                    banks.push(crate::event::wire_bank(&inv, *w, raw));
                }
                let mut pm = std::collections::BTreeMap::new();
                let plen = pads.iter().map(|p| p.2.len()).max().unwrap_or(0).min(411);
                for (c, r, s) in &pads {
                    let mut raw = vec![1725i16; 100];
                    raw.extend(s.iter().take(plen).map(|x| (1725.0 + x * f).round().clamp(-32768.0, 32767.0) as i16));
                    raw.resize(100 + plen, 1725);
                    pm.insert((*c, *r), raw);
                }
                banks.extend(crate::event::pad_banks(&inv, &pm, 1400));
                banks.push(crate::event::trg_bank(1));
                let ev = alpha_g_physics::MainEvent::try_from_banks(u32::MAX, banks.iter().map(|(n, d)| (&n[..], &d[..]))).ok()?;
                Some(ev.avalanches().iter().map(|a| { let k = key(a); (k.0, k.1, a.wire_amplitude.to_bits(), a.pad_amplitude.to_bits(), k.4) }).collect())
            };
            // signals are integers (rounded) and small enough not to clip when doubled
            let maxabs = wires.iter().flat_map(|w| w.1.iter()).chain(pads.iter().flat_map(|p| p.2.iter())).fold(0.0f64, |a, x| a.max(x.abs()));
            if maxabs < 15000.0 {
                ctx.eval();
                match guard(|| (mk(1.0), mk(2.0))) {
                    Ok((Some(a), Some(b))) => {
                        let ok = a.len() == b.len() && a.iter().zip(&b).all(|(x, y)| x.0 == y.0 && x.1 == y.1 && x.4 == y.4 && (f64::from_bits(x.2) * 2.0).to_bits() == y.2 && (f64::from_bits(x.3) * 2.0).to_bits() == y.3);
                        if !ok {
                            ctx.violation("bank route: doubling every calibrated sample does not double the amplitudes exactly", format!("{} vs {} avalanches", a.len(), b.len()), json!({}));
                        } else if !a.is_empty() {
                            ctx.count("bank-route scalings exact");
                        }
                    }
                    Ok(_) => ctx.count("bank-route events that did not build (skipped)"),
                    Err(p) => ctx.panic_violation("bank route", &p, json!({})),
                }
            }
        }
    });
    ctx.require("pad waveforms with >= 1 non-zero output", 100);
    ctx.require("isolated wire pulses recovered", 256);
    ctx.require("event scalings exact", 20);
}
