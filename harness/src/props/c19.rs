//! C19 – vertex / scaler CSVs: one row per main event, in run order, with unwrapped time.
use super::c20::{bin, workdir};
use crate::core::*;
use crate::enc::Trg;
use crate::midas::{self, Event};
use crate::sim;
use alpha_g_detector::trigger::TrgPacket;
use alpha_g_physics::MainEvent;
use serde_json::json;
use std::path::PathBuf;
use std::process::Command;
use uom::si::length::meter;

pub fn prop() -> Prop {
    Prop {
        id: "C19",
        level: "exploration",
        rule: "generated runs of 1..=4 MIDAS files (.mid and .mid.lz4 mixed) x 0..=60 events (main / chronobox / sequencer / unknown ids interleaved; mostly small main events plus a few full forward-model events so vertex columns are populated), TRG timestamps stepping by up to 2^32-1 (several wraps), undecodable main events first / middle / last / all. The real alpha-g-vertices and alpha-g-trg-scalers binaries run as child processes for argument permutations (all <= 24 in the thorough tier) x RAYON_NUM_THREADS in {1,2,5,16}; the CSV is compared with a table computed by the harness (own file sort by initial timestamp, own 32-bit wrap-around scan, library calls in-process for vertex / scaler cells: bit equality of the parsed f64 / u32), outputs must be byte-identical after the two comment lines across thread counts and argument orders; refusals (mixed run numbers, duplicate initial timestamp, unknown / missing extension) must exit non-zero without a CSV. Thorough: valgrind memcheck on both binaries for .lz4 runs. Non-trivial = distinct runs (hash of file bytes) with >= 2 files or >= 1 wrap or >= 1 undecodable event. Also: timestamp steps of exactly 0, 2^31-1, 2^31, 2^32-1; > 32 KiB incompressible banks; .lz4 files written with a flush every 64..40 000 bytes; zero-length duplicate of a file placed first / last / far from its twin. Round 4: the foreign file carries run 0, 1, u32::MAX-1 (or the simulation's u32::MAX), is contiguous in time with the run (so nothing else is wrong), earliest or latest, and first / last / anywhere on the command line. Round 5: big-endian files and 16-bit / 32a bank flavours per file; files lasting minutes; main events repeating the previous TRG packet byte for byte; TRG clock starting at / landing on 0 and u32::MAX. Round 6: event-header unix times advancing through the file; unix times and serial numbers straddling 2^31 / near 2^32; serial numbers repeated across a file boundary, restarting per file, repeated inside a file. Round 7: zero-length banks that the library rejects; DAQ-style file names (runNNNNNsubNNN) whose sub-run index disagrees with the time order. Round 8: extensions that differ from the known ones in case only or are near misses (.MID, .mid.LZ4, .midx, .mid.lz, .mid.lz4.bak); the same file given twice (same path, path alias, symbolic link).",
        assumptions: &["MIDAS writer (harness/src/midas.rs) produces files midasio accepts", "the library's in-process result is the oracle for vertex / scaler cells (legitimate because C11 holds: results are reproducible bit for bit)"],
        profiles: release_only,
        shards: shards16,
        no_progress_cpu_s: None,
        run,
        finalize: None,
    }
}

struct Ev {
    id: u16,
    serial: u32,
    banks: Vec<(String, Vec<u8>)>,
}
struct FileSpec {
    name: String,
    t0: u32,
    t1: u32,
    run: u32,
    events: Vec<Ev>,
}

#[derive(Debug, Clone, PartialEq)]
struct VRow {
    serial: u32,
    ticks: Option<u64>, // cumulative ticks relative to the scan start
    v: Option<Option<[u64; 3]>>,
}
#[derive(Debug, Clone, PartialEq)]
struct SRow {
    serial: u32,
    ticks: Option<u64>,
    cells: Option<[Option<u32>; 5]>,
}

/// 32-bit wrap-around scan exactly as the statement says: sum of wrapped differences between consecutive
/// decodable events (undecodable ones repeat the previous timestamp). The origin is arbitrary.
fn scan(ts: &[Option<u32>]) -> Vec<Option<u64>> {
    let mut prev: Option<u32> = None;
    let mut cum: u64 = 0;
    ts.iter()
        .map(|t| match t {
            Some(t) => {
                if let Some(p) = prev {
                    cum += t.wrapping_sub(p) as u64;
                }
                prev = Some(*t);
                Some(cum)
            }
            None => None,
        })
        .collect()
}

fn parse_csv(text: &str, ncols: usize) -> Option<(Vec<String>, Vec<Vec<String>>)> {
    let mut l = text.lines();
    let c1 = l.next()?.to_string();
    let c2 = l.next()?.to_string();
    if !c1.starts_with("# ") || !c2.starts_with("# ") {
        return None;
    }
    let header = l.next().map(|s| s.to_string());
    let rows: Vec<Vec<String>> = l.map(|r| r.split(',').map(|s| s.to_string()).collect()).collect();
    if rows.iter().any(|r| r.len() != ncols) {
        return None;
    }
    Some((vec![c1, c2, header.unwrap_or_default()], rows))
}

fn body_after_comments(text: &str) -> String {
    text.splitn(3, '\n').nth(2).unwrap_or("").to_string()
}

fn run(ctx: &mut Ctx) {
    let exe_v = bin("alpha-g-vertices");
    let exe_s = bin("alpha-g-trg-scalers");
    if !exe_v.exists() || !exe_s.exists() {
        ctx.inconclusive("analysis binaries not built".into());
        return;
    }
    let m = sim::Model::load(&repo_root());
    let inv = crate::maps::inverse(u32::MAX);
    let thorough = !ctx.quick();
    let have_valgrind = Command::new("valgrind").arg("--version").output().map(|o| o.status.success()).unwrap_or(false);
    let n = ctx.tier.pick(48, 1200);
    ctx.cases("runs", n, |ctx, i, rng| {
        let dir = workdir(ctx, i);
        let run_number = if i % 5 == 4 { 11500 } else { u32::MAX };
        let nfiles = 1 + rng.usize(4);
        // the 32-bit TRG clock starts anywhere, also exactly at 0 / 1 / its maximum (values a program might use as "unset")
        let mut ts: u32 = match rng.below(8) {
            0 => 0,
            1 => u32::MAX,
            2 => 1,
            _ => rng.next() as u32,
        };
        let big_steps = rng.bool();
        // serial numbers: usually small, now and then straddling 2^31 or close to 2^32 (they are labels, never compared)
        let mut serial = match rng.below(10) {
            0 => (1u32 << 31) - 20,
            1 => u32::MAX - 5000,
            _ => rng.below(1000) as u32,
        };
        let mut serial_from_zero = i % 7 == 0;
        // serial numbers are labels: mostly increasing, sometimes repeated across a file boundary, restarting per file, or
        // repeated inside a file
        let serial_mode = rng.below(8);
        let undec_mode = rng.below(6); // 0 none, 1 first, 2 middle, 3 last, 4 all, 5 random
        let mut files: Vec<FileSpec> = Vec::new();
        // unix time of the run: usually 2020, now and then straddling 2^31 s (January 2038) or close to 2^32
        let mut t0 = match rng.below(10) {
            0 => (1u32 << 31) - 40 + rng.below(30) as u32,
            1 => u32::MAX - 20_000 + rng.below(1000) as u32,
            _ => 1_600_000_000 + rng.below(1000) as u32,
        };
        let mut full_budget = if i % 3 == 0 { 2 } else { 0 };
        let daq_names = rng.below(4) == 0;
        let mut total_main = 0usize;
        let mut last_trg: Option<Vec<u8>> = None;
        let mut repeated_trg = 0u64;
        for k in 0..nfiles {
            let ne = if rng.chance(0.1) { 0 } else { rng.usize(if thorough { 61 } else { 25 }) };
            let mut events = Vec::new();
            for e in 0..ne {
                if serial_from_zero {
                    serial = 0;
                    serial_from_zero = false;
                } else if e == 0 && k > 0 && serial_mode == 1 {
                    // the first event of this file carries the same serial number as the last event of the previous file
                } else if e == 0 && k > 0 && serial_mode == 2 {
                    serial = 0; // numbering restarts in every file
                } else if serial_mode == 3 && rng.chance(0.2) {
                    // a repeated serial number inside the file
                } else {
                    serial += 1 + rng.below(3) as u32;
                }
                let kind = rng.below(10);
                if kind == 0 {
                    events.push(Ev { id: 4, serial, banks: vec![("CBF1".into(), vec![0, 0, 0, 0xFF])] });
                    continue;
                }
                if kind == 1 {
                    // sequencer / unknown events; now and then with a large incompressible bank (> 32 KiB)
                    let big = if rng.chance(0.15) { 40_000 + rng.usize(80_000) } else { 12 };
                    events.push(Ev { id: if rng.bool() { 8 } else { 3 }, serial, banks: vec![("SEQ2".into(), rng.bytes(big)), ("ATAT".into(), Trg::simple(5, 5).encode())] });
                    continue;
                }
                total_main += 1;
                // steps: random; sometimes exactly 0 (two triggers in the same tick), 2^31 - 1, 2^31, 2^32 - 1
                let first_main = total_main == 1;
                ts = ts.wrapping_add(match rng.below(12) {
                    _ if first_main => 0, // the first main event carries the starting value itself
                    0 => 0,
                    2 => ts.wrapping_neg(), // lands exactly on 0
                    3 if rng.bool() => ts.wrapping_neg().wrapping_sub(1), // lands exactly on u32::MAX
                    1 => *rng.pick(&[1u32, 0x7FFF_FFFF, 0x8000_0000, 0x8000_0001, 0xFFFF_FFFF]),
                    _ => {
                        if big_steps {
                            rng.next() as u32
                        } else {
                            rng.below(1 << 26) as u32
                        }
                    }
                });
                let first = k == 0 && e == 0;
                let undec = match undec_mode {
                    0 => false,
                    1 => total_main <= 2 || first,
                    2 => e == ne / 2,
                    3 => k + 1 == nfiles && e + 2 >= ne,
                    4 => true,
                    _ => rng.chance(0.25),
                };
                let mut banks: Vec<(String, Vec<u8>)> = Vec::new();
                if full_budget > 0 && !undec && run_number == u32::MAX && rng.chance(0.3) {
                    full_budget -= 1;
                    let ev = sim::random_event(rng);
                    let sg = sim::signals(&m, &ev);
                    banks = sim::banks(&inv, &sg, ts, 1400);
                } else {
                    let mut t = Trg::simple(ts, rng.next() as u32 >> 6);
                    t.input = t.drift.saturating_add(rng.below(1000) as u32);
                    t.pulser = rng.next() as u32;
                    let mut bytes = t.encode();
                    // now and then the very same 80 bytes as the previous main event (also across a file boundary or
                    // with undecodable events in between): the row must still be the packet's own
                    match &last_trg {
                        Some(prev) if rng.chance(0.12) => {
                            bytes = prev.clone();
                            ts = u32::from_le_bytes(bytes[8..12].try_into().unwrap());
                            repeated_trg += 1;
                        }
                        _ => {}
                    }
                    last_trg = Some(bytes.clone());
                    banks.push(("ATAT".into(), bytes));
                    if rng.chance(0.3) {
                        banks.push(("TRBA".into(), rng.bytes(9)));
                    }
                    if rng.chance(0.3) && run_number == u32::MAX {
                        let w = rng.usize(256);
                        banks.push(crate::event::wire_bank(&inv, w, (0..200).map(|_| 3000 + (rng.gauss() * 3.0) as i16).collect()));
                    }
                }
                if undec {
                    match rng.below(5) {
                        0 => banks.retain(|b| b.0 != "ATAT"),               // missing TRG (both binaries: undecodable)
                        1 => banks.push(("XXXX".into(), vec![1, 2, 3])),     // unknown bank: vertices undecodable, scalers decodable
                        2 => {
                            // malformed TRG
                            if let Some(b) = banks.iter_mut().find(|b| b.0 == "ATAT") {
                                b.1.truncate(79);
                            }
                        }
                        3 => banks.push(("ATAT".into(), Trg::simple(ts, 1).encode())), // two TRG banks
                        4 if rng.bool() => {
                            // a zero-length bank that the library rejects (the scalers binary only looks at the TRG bank)
                            banks.push((rng.pick(&["PC01", "C09A", "XXXX", "PC77", "C10V"]).to_string(), Vec::new()));
                        }
                        _ => banks.push(("C09A".into(), rng.bytes(20))),      // malformed wire bank: vertices undecodable only
                    }
                }
                rng.shuffle(&mut banks);
                events.push(Ev { id: 1, serial, banks });
            }
            // a file lasts up to 50 s, now and then several minutes (the seconds counter then crosses multiples of 256)
            let t1 = t0 + if rng.chance(0.3) { rng.below(600) } else { rng.below(50) } as u32;
            let ext = if rng.chance(0.4) { "mid.lz4" } else { "mid" };
            // file names deliberately do not sort like the timestamps
            // file names deliberately do not sort like the timestamps; one run in four uses DAQ-style names whose sub-run
            // index disagrees with the time order (files copied from two directories, renamed by hand)
            let name = if daq_names { format!("run{:05}sub{:03}.{}", 4321, (nfiles - k) * 7 % 10, ext) } else { format!("run{:02}_{}.{}", (nfiles - k) * 7 % 10, k, ext) };
            files.push(FileSpec { name, t0, t1, run: run_number, events });
            t0 = t1 + rng.below(2) as u32; // next file starts within one second
            if t0 == files.last().unwrap().t0 {
                t0 += 1;
            }
        }
        // ---- expected tables (files in order of initial timestamp = generation order)
        let mut vts: Vec<Option<u32>> = Vec::new();
        let mut vrows: Vec<(u32, Option<Option<[u64; 3]>>)> = Vec::new();
        let mut sts: Vec<Option<u32>> = Vec::new();
        let mut srows: Vec<(u32, Option<[Option<u32>; 5]>)> = Vec::new();
        for f in &files {
            for e in f.events.iter().filter(|e| e.id == 1) {
                ctx.eval();
                match guard(|| MainEvent::try_from_banks(f.run, e.banks.iter().map(|(n, d)| (&n[..], &d[..]))).map(|ev| (ev.timestamp(), ev.vertex()))) {
                    Ok(Ok((t, v))) => {
                        vts.push(Some(t));
                        vrows.push((e.serial, Some(v.map(|v| [v.x.get::<meter>().to_bits(), v.y.get::<meter>().to_bits(), v.z.get::<meter>().to_bits()]))));
                    }
                    Ok(Err(_)) => {
                        vts.push(None);
                        vrows.push((e.serial, None));
                    }
                    Err(p) => {
                        ctx.panic_violation("MainEvent (oracle side)", &p, json!({}));
                        return;
                    }
                }
                let trg: Vec<&(String, Vec<u8>)> = e.banks.iter().filter(|b| b.0 == "ATAT").collect();
                let pk = if trg.len() == 1 { TrgPacket::try_from(&trg[0].1[..]).ok() } else { None };
                match pk {
                    Some(p) => {
                        sts.push(Some(p.timestamp()));
                        srows.push((e.serial, Some([Some(p.input_counter()), p.drift_veto_counter(), p.scaledown_counter(), Some(p.pulser_counter()), Some(p.output_counter())])));
                    }
                    None => {
                        sts.push(None);
                        srows.push((e.serial, None));
                    }
                }
            }
        }
        let vexp: Vec<VRow> = vrows.iter().zip(scan(&vts)).map(|((s, v), t)| VRow { serial: *s, ticks: t, v: v.clone() }).collect();
        let sexp: Vec<SRow> = srows.iter().zip(scan(&sts)).map(|((s, c), t)| SRow { serial: *s, ticks: t, cells: *c }).collect();
        let wraps = vts.iter().flatten().collect::<Vec<_>>().windows(2).filter(|w| w[1] < w[0]).count();
        let undecodable = vts.iter().filter(|t| t.is_none()).count();
        // ---- write the files
        let mut paths: Vec<PathBuf> = Vec::new();
        let mut d = Digest::new();
        let run_big_endian = rng.below(4) == 0;
        for f in &files {
            // event-header unix times: all equal to the file's start, or advancing through the file (with jumps of tens of
            // seconds when the file is long), never beyond the file's final time
            let ne = f.events.len().max(1) as u32;
            let advancing = rng.bool();
            let evs: Vec<Event> = f.events.iter().enumerate().map(|(k, e)| Event { id: e.id, serial: e.serial, timestamp: if advancing { f.t0 + (f.t1 - f.t0) / ne * k as u32 + if k as u32 * 2 > ne { (f.t1 - f.t0) % ne.max(1) } else { 0 } } else { f.t0 }, banks: e.banks.clone() }).collect();
            // each file in one of the formats the MIDAS library reads: byte order and bank flavour are per file
            let small = evs.iter().all(|e| e.banks.iter().all(|b| b.1.len() < 65536));
            let be = run_big_endian || rng.chance(0.1);
            let flavour = match rng.below(6) {
                0 if small => 1,
                1 => 49,
                _ => 17,
            };
            if be {
                ctx.count("big-endian MIDAS files written");
            }
            if flavour != 17 {
                ctx.count("MIDAS files written with 16-bit / 32a bank headers");
            }
            let bytes = if !be && flavour == 17 { midas::file_bytes(f.run, f.t0, f.t1, &evs) } else { midas::file_bytes_fmt(f.run, f.t0, f.t1, &evs, be, flavour) };
            d.bytes(&bytes);
            let p = dir.join(&f.name);
            if f.name.ends_with(".lz4") && rng.chance(0.4) {
                // the same content written with a flush every few hundred bytes: many short lz4 blocks
                midas::write_lz4_flushed(&p, &bytes, *rng.pick(&[64usize, 512, 4096, 40_000]));
                ctx.count(".lz4 files written with flushes between pieces");
            } else {
                midas::write(&p, &bytes);
            }
            paths.push(p);
        }
        if nfiles >= 2 || wraps >= 1 || undecodable >= 1 {
            ctx.nontrivial(d.0);
        }
        if i < 2 {
            ctx.sample(json!({"kind": "run", "run_number": run_number, "files": files.iter().map(|f| json!({"name": f.name, "t0": f.t0, "t1": f.t1, "events": f.events.len()})).collect::<Vec<_>>(), "main_events": vexp.len(), "timestamp_wraps": wraps, "undecodable_for_vertices": undecodable}));
        }
        ctx.count_n("main events (expected rows)", vexp.len() as u64);
        ctx.count_n("main events repeating the previous TRG packet byte for byte", repeated_trg);
        ctx.count_n("32-bit timestamp wraps crossed", wraps as u64);
        ctx.count_n("undecodable main events", undecodable as u64);
        ctx.count_n("rows with a reconstructed vertex expected", vexp.iter().filter(|r| matches!(r.v, Some(Some(_)))).count() as u64);
        // ---- argument orders x thread counts
        let mut orders: Vec<Vec<usize>> = Vec::new();
        let ident: Vec<usize> = (0..nfiles).collect();
        if thorough || nfiles <= 2 {
            // all permutations (<= 24)
            fn rec(cur: &mut Vec<usize>, n: usize, out: &mut Vec<Vec<usize>>) {
                if cur.len() == n {
                    out.push(cur.clone());
                    return;
                }
                for k in 0..n {
                    if !cur.contains(&k) {
                        cur.push(k);
                        rec(cur, n, out);
                        cur.pop();
                    }
                }
            }
            rec(&mut Vec::new(), nfiles, &mut orders);
        } else {
            orders.push(ident.clone());
            orders.push(ident.iter().rev().cloned().collect());
            let mut o = ident.clone();
            rng.shuffle(&mut o);
            orders.push(o);
        }
        let threads = ["1", "2", "5", "16"];
        let mut ref_body: [Option<String>; 2] = [None, None];
        let inputs = |ctx: &Ctx| json!({"dir_note": "replay regenerates the run from seed/case", "case": ctx.cur_case, "files": files.iter().map(|f| json!({"name": f.name, "t0": f.t0, "t1": f.t1, "run": f.run, "events": f.events.iter().map(|e| json!({"id": e.id, "serial": e.serial, "banks": e.banks.iter().map(|b| b.0.clone()).collect::<Vec<_>>()})).collect::<Vec<_>>()})).collect::<Vec<_>>()});
        for (oi, ord) in orders.iter().enumerate() {
            let tlist: Vec<&str> = if oi == 0 { threads.to_vec() } else { vec![threads[rng.usize(4)]] };
            for th in tlist {
                for (bi, exe) in [&exe_v, &exe_s].iter().enumerate() {
                    if bi == 1 && th != "1" && oi != 0 {
                        continue; // the scalers binary has no worker threads; thread count only varied for order 0
                    }
                    ctx.eval();
                    let out_stem = dir.join(format!("out{}_{}_{}", bi, oi, th));
                    let args: Vec<&PathBuf> = ord.iter().map(|k| &paths[*k]).collect();
                    let o = Command::new(exe).args(&args).arg("-o").arg(&out_stem).env("RAYON_NUM_THREADS", th).output();
                    let Ok(o) = o else {
                        ctx.inconclusive("cannot spawn binary".into());
                        return;
                    };
                    let what = ["alpha-g-vertices", "alpha-g-trg-scalers"][bi];
                    if !o.status.success() {
                        ctx.violation(&format!("{} failed on a valid run", what), format!("order {:?} threads {}: {}", ord, th, String::from_utf8_lossy(&o.stderr).lines().last().unwrap_or("")), inputs(ctx));
                        return;
                    }
                    let text = std::fs::read_to_string(out_stem.with_extension("csv")).unwrap_or_default();
                    let body = body_after_comments(&text);
                    match &ref_body[bi] {
                        None => {
                            // full comparison with the expected table
                            let ncols = if bi == 0 { 5 } else { 7 };
                            let Some((hdr, rows)) = parse_csv(&text, ncols) else {
                                ctx.violation(&format!("{}: malformed CSV", what), text.chars().take(300).collect(), inputs(ctx));
                                return;
                            };
                            // column names are not part of the property: only the number of columns is checked
                            let nexp = if bi == 0 { vexp.len() } else { sexp.len() };
                            if hdr[2].split(',').count() != ncols && !(nexp == 0 && hdr[2].is_empty()) {
                                ctx.violation(&format!("{}: CSV header does not have {} columns", what, ncols), hdr[2].clone(), inputs(ctx));
                                return;
                            }
                            if rows.len() != nexp {
                                ctx.violation(&format!("{}: not exactly one row per main event", what), format!("{} rows for {} main events", rows.len(), nexp), inputs(ctx));
                                return;
                            }
                            // time origin: first decodable row
                            let mut origin: Option<(f64, u64)> = None;
                            for (ri, r) in rows.iter().enumerate() {
                                let (serial, ticks, cells_empty): (u32, Option<u64>, bool) = if bi == 0 { (vexp[ri].serial, vexp[ri].ticks, vexp[ri].v.is_none()) } else { (sexp[ri].serial, sexp[ri].ticks, sexp[ri].cells.is_none()) };
                                if r[0].parse::<u32>().ok() != Some(serial) {
                                    ctx.violation(&format!("{}: row order / serial number differs from file order", what), format!("row {}: serial {} expected {}", ri, r[0], serial), inputs(ctx));
                                    return;
                                }
                                if cells_empty != r[1..].iter().all(|c| c.is_empty()) || (cells_empty && !r[1].is_empty()) {
                                    ctx.violation(&format!("{}: undecodable event without empty fields or decodable event with empty fields", what), format!("row {}: {:?} (event decodable: {})", ri, r, !cells_empty), inputs(ctx));
                                    return;
                                }
                                if let Some(tk) = ticks {
                                    let Ok(t) = r[1].parse::<f64>() else {
                                        ctx.violation(&format!("{}: trg_time missing for a decodable event", what), format!("row {}: {:?}", ri, r), inputs(ctx));
                                        return;
                                    };
                                    let (t_o, k_o) = *origin.get_or_insert((t, tk));
                                    let want = (tk - k_o) as f64 / 62.5e6;
                                    if ((t - t_o) - want).abs() > 1e-9 {
                                        ctx.violation(&format!("{}: trg_time difference is not the sum of the wrapped timestamp differences", what), format!("row {} (serial {}): {} s since the first decodable row, expected {} s", ri, serial, t - t_o, want), inputs(ctx));
                                        return;
                                    }
                                }
                                if bi == 0 {
                                    if let Some(v) = &vexp[ri].v {
                                        let got: Vec<Option<u64>> = r[2..5].iter().map(|c| c.parse::<f64>().ok().map(|x| x.to_bits())).collect();
                                        let want: Vec<Option<u64>> = match v {
                                            Some(b) => b.iter().map(|x| Some(*x)).collect(),
                                            None => vec![None, None, None],
                                        };
                                        if got != want {
                                            ctx.violation("alpha-g-vertices: vertex cells differ from the library's result for that event", format!("row {} serial {}: {:?}", ri, serial, &r[2..5]), inputs(ctx));
                                            return;
                                        }
                                    }
                                } else if let Some(c) = &sexp[ri].cells {
                                    let got: Vec<Option<u32>> = r[2..7].iter().map(|c| c.parse::<u32>().ok()).collect();
                                    if got != c.to_vec() {
                                        ctx.violation("alpha-g-trg-scalers: scaler cells differ from the TRG packet's counters", format!("row {} serial {}: {:?} expected {:?}", ri, serial, &r[2..7], c), inputs(ctx));
                                        return;
                                    }
                                }
                            }
                            ctx.count(&format!("{}: CSV matches the expected table", what));
                            ref_body[bi] = Some(body);
                        }
                        Some(rb) => {
                            if *rb != body {
                                ctx.violation(&format!("{}: output differs between argument orders / thread counts", what), format!("order {:?} threads {}", ord, th), inputs(ctx));
                                return;
                            }
                            ctx.count(&format!("{}: outputs byte-identical to the reference (other order / thread count)", what));
                        }
                    }
                }
            }
        }
        // ---- valgrind memcheck (thorough, .lz4 runs: lz4-sys is the only native code)
        if thorough && have_valgrind && i % 40 == 0 && paths.iter().any(|p| p.extension().map(|e| e == "lz4").unwrap_or(false)) {
            for exe in [&exe_v, &exe_s] {
                ctx.eval();
                let o = Command::new("valgrind").args(["--quiet", "--error-exitcode=99", "--errors-for-leak-kinds=none"]).arg(exe).args(&paths).arg("-o").arg(dir.join("vg")).env("RAYON_NUM_THREADS", "2").output();
                if let Ok(o) = o {
                    if o.status.code() == Some(99) {
                        ctx.violation("valgrind memcheck reports an error in the binary", String::from_utf8_lossy(&o.stderr).lines().take(12).collect::<Vec<_>>().join("\n"), inputs(ctx));
                    } else {
                        ctx.count("valgrind memcheck runs clean");
                    }
                }
            }
        }
        // ---- refusals
        let refuse = |ctx: &mut Ctx, name: &str, args: Vec<PathBuf>| {
            for (bi, exe) in [&exe_v, &exe_s].iter().enumerate() {
                ctx.eval();
                // (the output name must be a plain file name, whatever the label contains, and fresh for every attempt)
                let tag: String = name.chars().map(|c| if c.is_ascii_alphanumeric() { c } else { '_' }).collect();
                let stem = dir.join(format!("refuse{}_{}_{}", bi, tag, ctx.evaluations));
                let o = Command::new(exe).args(&args).arg("-o").arg(&stem).output();
                if let Ok(o) = o {
                    if o.status.success() || stem.with_extension("csv").exists() {
                        ctx.violation(&format!("{} accepted: {}", ["alpha-g-vertices", "alpha-g-trg-scalers"][bi], name), format!("exit {:?}, csv exists: {}", o.status.code(), stem.with_extension("csv").exists()), json!({"args": args.iter().map(|p| p.display().to_string()).collect::<Vec<_>>()}));
                    } else {
                        ctx.count(&format!("refused: {}", name));
                    }
                }
            }
        };
        let mk = |name: &str, run: u32, t0: u32| -> PathBuf {
            let p = dir.join(name);
            midas::write(&p, &midas::file_bytes(run, t0, t0 + 1, &[]));
            p
        };
        match i % 4 {
            0 => {
                // a file of another run: any other number (0 and the simulation's u32::MAX included), earliest or
                // latest in time, first / last / anywhere on the command line
                let mut others: Vec<u32> = vec![if run_number == u32::MAX { 7 } else { run_number + 1 }, 0, 1, u32::MAX - 1];
                if run_number != u32::MAX {
                    others.push(u32::MAX);
                }
                for (oi, other_run) in others.into_iter().enumerate() {
                    let early = oi % 2 == 1;
                    let t = if early { files[0].t0 - 2 } else { files.last().unwrap().t1 + 1 };
                    let other = mk(&format!("other_run{}.mid", oi), other_run, t);
                    for pos in [0usize, paths.len(), rng.usize(paths.len() + 1)] {
                        let mut a = paths.clone();
                        a.insert(pos, other.clone());
                        refuse(ctx, "files of different runs", a);
                    }
                }
            }
            1 => {
                let j = rng.usize(nfiles);
                let dup = mk("dup_t0.mid.lz4", run_number, files[j].t0);
                let mut a = paths.clone();
                a.insert(rng.usize(a.len() + 1), dup);
                refuse(ctx, "duplicate initial timestamp", a);
                // a duplicate whose final timestamp equals its initial one (no gap / overlap can hide it),
                // placed first, last and far from its twin on the command line
                let p = dir.join("dup_short.mid");
                midas::write(&p, &midas::file_bytes(run_number, files[j].t0, files[j].t0, &[]));
                for pos in [0usize, paths.len(), (j + 2) % (paths.len() + 1)] {
                    let mut a = paths.clone();
                    a.insert(pos, p.clone());
                    refuse(ctx, "duplicate initial timestamp (zero-length twin)", a);
                }
            }
            2 => {
                let p = dir.join("notes.txt");
                std::fs::write(&p, midas::file_bytes(run_number, files.last().unwrap().t1 + 1, files.last().unwrap().t1 + 2, &[])).unwrap();
                let mut a = paths.clone();
                a.push(p);
                refuse(ctx, "unknown extension .txt", a);
            }
            _ => {
                let p = dir.join("noextension");
                std::fs::write(&p, midas::file_bytes(run_number, files.last().unwrap().t1 + 1, files.last().unwrap().t1 + 2, &[])).unwrap();
                let mut a = paths.clone();
                a.insert(0, p);
                refuse(ctx, "file without extension", a);
                // an otherwise perfect continuation of the run whose extension differs from the known ones in case only,
                // or is a near miss of them
                let tlast = files.last().unwrap().t1;
                for (k, ext) in ["MID", "Mid", "mid.LZ4", "mid.Lz4", "midx", "mid.lz", "mid.lz4.bak", "LZ4"].iter().enumerate() {
                    let p = dir.join(format!("cont{}.{}", k, ext));
                    let bytes = midas::file_bytes(run_number, tlast + 1, tlast + 2, &[]);
                    if ext.to_lowercase().ends_with("lz4") && !ext.ends_with("bak") {
                        // really lz4-compressed, so that only the name is wrong
                        let q = dir.join(format!("tmp{}.mid.lz4", k));
                        midas::write(&q, &bytes);
                        std::fs::rename(&q, &p).unwrap();
                    } else {
                        std::fs::write(&p, &bytes).unwrap();
                    }
                    let mut a = paths.clone();
                    a.push(p);
                    refuse(ctx, "unknown extension (case / near miss)", a);
                }
                // the very same file given twice: as the same path, through a path alias, through a symbolic link
                let j = rng.usize(nfiles);
                let mut a = paths.clone();
                a.insert(rng.usize(a.len() + 1), paths[j].clone());
                refuse(ctx, "duplicate initial timestamp (the same file twice)", a);
                let alias = dir.join("sub").join("..").join(paths[j].file_name().unwrap());
                let _ = std::fs::create_dir_all(dir.join("sub"));
                let mut a = paths.clone();
                a.push(alias);
                refuse(ctx, "duplicate initial timestamp (the same file through a path alias)", a);
                let link = dir.join(format!("link.{}", if paths[j].to_string_lossy().ends_with("lz4") { "mid.lz4" } else { "mid" }));
                if std::os::unix::fs::symlink(&paths[j], &link).is_ok() {
                    let mut a = paths.clone();
                    a.insert(0, link);
                    refuse(ctx, "duplicate initial timestamp (a symbolic link to a listed file)", a);
                }
            }
        }
        let _ = std::fs::remove_dir_all(&dir);
    });
    ctx.require("alpha-g-vertices: CSV matches the expected table", 10);
    ctx.require("alpha-g-trg-scalers: CSV matches the expected table", 10);
    ctx.require("alpha-g-vertices: outputs byte-identical to the reference (other order / thread count)", 20);
    ctx.require("rows with a reconstructed vertex expected", 3);
}
