use crate::core::Prop;
pub mod c02;

pub fn all() -> Vec<Prop> {
    vec![c02::prop()]
}
