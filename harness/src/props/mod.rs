use crate::core::{guard, hex_short, Ctx, Prop};
use alpha_g_detector::padwing::Chunk;
pub mod c01;
pub mod c02;
pub mod c03;
pub mod c04;
pub mod c05;
pub mod c06;
pub mod c07;
pub mod c08;
pub mod c09;
pub mod c10;
pub mod c11;
pub mod c12;
pub mod c13;
pub mod c14;
pub mod c15;
pub mod c16;
pub mod c17;
pub mod c18;
pub mod c19;
pub mod c20;

pub fn all() -> Vec<Prop> {
    vec![c01::prop(), c02::prop(), c03::prop(), c04::prop(), c05::prop(), c06::prop(), c07::prop(), c08::prop(), c09::prop(), c10::prop(), c11::prop(), c12::prop(), c13::prop(), c14::prop(), c15::prop(), c16::prop(), c17::prop(), c18::prop(), c19::prop(), c20::prop()]
}

/// Decode a chunk that the harness built with its own encoder. If the library rejects (or panics on) bytes that the
/// reference decoder accepts, that is a violation to report, not a reason for the harness to fall over.
pub fn lib_chunk(ctx: &mut Ctx, bytes: &[u8]) -> Option<Chunk> {
    match guard(|| Chunk::try_from(bytes)) {
        Ok(Ok(c)) => Some(c),
        Ok(Err(e)) => {
            assert!(crate::refs::chunk_ref(bytes).is_some(), "harness bug: built a chunk its own reference decoder rejects");
            ctx.violation("well-formed chunk rejected", format!("the library rejects a chunk the reference decoder accepts: {}", e), serde_json::json!({"bytes": hex_short(bytes)}));
            None
        }
        Err(p) => {
            ctx.panic_violation("Chunk::try_from", &p, serde_json::json!({"bytes": hex_short(bytes)}));
            None
        }
    }
}

pub const LIB_REJECTS: &str = "LIBRARY-REJECTS-VALID-INPUT";
/// Like `lib_chunk` for call sites without a context: panics with a marked message that `child_main` turns into a
/// violation (the rest of that shard's cases are then skipped).
pub fn must_chunk(bytes: &[u8]) -> Chunk {
    match guard(|| Chunk::try_from(bytes)) {
        Ok(Ok(c)) => c,
        other => {
            assert!(crate::refs::chunk_ref(bytes).is_some(), "harness bug: built a chunk its own reference decoder rejects");
            let why = match other {
                Ok(Err(e)) => format!("rejected: {}", e),
                Err(p) => format!("panicked: {} ({})", p.message, p.location),
                _ => unreachable!(),
            };
            panic!("{}: the library does not decode a chunk that the reference decoder accepts ({}); bytes {}", LIB_REJECTS, why, hex_short(bytes))
        }
    }
}
