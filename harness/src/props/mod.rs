use crate::core::{guard, hex_short, Ctx, Prop};
use alpha_g_detector::padwing::Chunk;
pub mod c01;
pub mod c02;
pub mod c03;
pub mod c04;
pub mod c05;
pub mod c06;
pub mod c07;
pub mod c08;
pub mod c09;
pub mod c10;
pub mod c11;
pub mod c12;
pub mod c13;
pub mod c14;
pub mod c15;
pub mod c16;
pub mod c17;
pub mod c18;
pub mod c19;
pub mod c20;

pub fn all() -> Vec<Prop> {
    vec![c01::prop(), c02::prop(), c03::prop(), c04::prop(), c05::prop(), c06::prop(), c07::prop(), c08::prop(), c09::prop(), c10::prop(), c11::prop(), c12::prop(), c13::prop(), c14::prop(), c15::prop(), c16::prop(), c17::prop(), c18::prop(), c19::prop(), c20::prop()]
}

/// Decode a chunk that the harness built with its own encoder. If the library rejects (or panics on) bytes that the
/// reference decoder accepts, that is a violation to report, not a reason for the harness to fall over.
pub fn lib_chunk(ctx: &mut Ctx, bytes: &[u8]) -> Option<Chunk> {
    match guard(|| Chunk::try_from(bytes)) {
        Ok(Ok(c)) => Some(c),
        Ok(Err(e)) => {
            assert!(crate::refs::chunk_ref(bytes).is_some(), "harness bug: built a chunk its own reference decoder rejects");
            ctx.violation("well-formed chunk rejected", format!("the library rejects a chunk the reference decoder accepts: {}", e), serde_json::json!({"bytes": hex_short(bytes)}));
            None
        }
        Err(p) => {
            ctx.panic_violation("Chunk::try_from", &p, serde_json::json!({"bytes": hex_short(bytes)}));
            None
        }
    }
}

pub const LIB_REJECTS: &str = "LIBRARY-REJECTS-VALID-INPUT";
/// Like `lib_chunk` for call sites without a context: panics with a marked message that `child_main` turns into a
/// violation (the rest of that shard's cases are then skipped).
pub fn must_chunk(bytes: &[u8]) -> Chunk {
    match guard(|| Chunk::try_from(bytes)) {
        Ok(Ok(c)) => c,
        other => {
            assert!(crate::refs::chunk_ref(bytes).is_some(), "harness bug: built a chunk its own reference decoder rejects");
            let why = match other {
                Ok(Err(e)) => format!("rejected: {}", e),
                Err(p) => format!("panicked: {} ({})", p.message, p.location),
                _ => unreachable!(),
            };
            panic!("{}: the library does not decode a chunk that the reference decoder accepts ({}); bytes {}", LIB_REJECTS, why, hex_short(bytes))
        }
    }
}

/// Integer literals that appear in the library's own sources (read from the working tree being checked), plus the
/// usual boundary values. Used as candidate field values so that a decision that hinges on one particular constant
/// (a firmware revision, a board id, a sentinel) is exercised even though no random draw would ever hit it.
pub fn source_dictionary(subdir: &str) -> Vec<u64> {
    fn walk(dir: &std::path::Path, out: &mut Vec<std::path::PathBuf>) {
        if let Ok(rd) = std::fs::read_dir(dir) {
            let mut es: Vec<_> = rd.flatten().map(|e| e.path()).collect();
            es.sort();
            for p in es {
                if p.is_dir() {
                    walk(&p, out)
                } else if p.extension().map_or(false, |e| e == "rs") {
                    out.push(p)
                }
            }
        }
    }
    let mut files = Vec::new();
    walk(&std::path::Path::new(&crate::core::repo_root()).join(subdir), &mut files);
    let mut set = std::collections::BTreeSet::new();
    for v in [0u64, 1, 2, 3, 0x7F, 0x80, 0xFF, 0x100, 0x7FFF, 0x8000, 0xFFFF, 0x1_0000, 0x7FFF_FFFF, 0x8000_0000, 0xFFFF_FFFE, 0xFFFF_FFFF, u64::MAX] {
        set.insert(v);
    }
    for f in files {
        let Ok(t) = std::fs::read(&f) else { continue };
        let mut i = 0;
        while i < t.len() {
            let c = t[i];
            let prev_ok = i == 0 || !(t[i - 1].is_ascii_alphanumeric() || t[i - 1] == b'_' || t[i - 1] == b'.');
            if c.is_ascii_digit() && prev_ok {
                let (radix, mut j) = if c == b'0' && i + 1 < t.len() && (t[i + 1] == b'x' || t[i + 1] == b'X') {
                    (16, i + 2)
                } else if c == b'0' && i + 1 < t.len() && t[i + 1] == b'b' {
                    (2, i + 2)
                } else {
                    (10, i)
                };
                let mut v: Option<u64> = Some(0);
                let mut nd = 0;
                while j < t.len() {
                    let d = t[j];
                    if d == b'_' {
                        j += 1;
                        continue;
                    }
                    let Some(dv) = (d as char).to_digit(radix) else { break };
                    v = v.and_then(|v| v.checked_mul(radix as u64)).and_then(|v| v.checked_add(dv as u64));
                    nd += 1;
                    j += 1;
                }
                // a float literal (1.5, 62.5e6) is not an integer constant
                let is_float = radix == 10 && j < t.len() && (t[j] == b'.' && j + 1 < t.len() && t[j + 1].is_ascii_digit() || t[j] == b'e');
                if let (Some(v), true, false) = (v, nd > 0, is_float) {
                    set.insert(v);
                }
                // skip a type suffix / the rest of an identifier-like tail
                while j < t.len() && (t[j].is_ascii_alphanumeric() || t[j] == b'_') {
                    j += 1;
                }
                i = j.max(i + 1);
            } else {
                i += 1;
            }
        }
    }
    set.into_iter().collect()
}

/// "Two conditions jointly." One field of a valid seed is set to a dictionary value (at byte offset `offset`, widths
/// 1, 2 and 4, little and big endian, values that need that width); `f` sees that input, and then the same input with, on top,
/// every single-bit flip and every byte forced to 0x00 / 0xFF inside `region`. `fix` re-establishes checksums.
pub fn dict_pairs(seed: &[u8], offset: usize, region: std::ops::Range<usize>, dict: &[u64], fix: impl Fn(&mut Vec<u8>), mut f: impl FnMut(&[u8])) -> u64 {
    let mut n = 0;
    for w in [1usize, 2, 4] {
        if offset + w > seed.len() {
            continue;
        }
        let lo: u64 = if w == 1 { 0 } else { 1 << (4 * w) };
        let hi: u64 = 1 << (8 * w);
        for &v in dict.iter().filter(|&&v| v >= lo && v < hi) {
          for big_endian in [false, true] {
            let mut le = v.to_le_bytes()[..w].to_vec();
            if big_endian {
                le.reverse();
                if w == 1 || le == v.to_le_bytes()[..w] {
                    continue;
                }
            }
            let mut a = seed.to_vec();
            a[offset..offset + w].copy_from_slice(&le);
            let mut x = a.clone();
            fix(&mut x);
            f(&x);
            n += 1;
            for p in region.clone() {
                if p >= offset && p < offset + w {
                    continue;
                }
                for k in 0..10 {
                    let mut x = a.clone();
                    match k {
                        0..=7 => x[p] ^= 1 << k,
                        8 => x[p] = 0,
                        _ => x[p] = 0xFF,
                    }
                    if x[p] == a[p] {
                        continue;
                    }
                    fix(&mut x);
                    f(&x);
                    n += 1;
                }
            }
          }
        }
    }
    n
}
