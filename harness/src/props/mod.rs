use crate::core::Prop;
pub mod c01;
pub mod c02;
pub mod c03;
pub mod c04;
pub mod c05;
pub mod c06;
pub mod c07;
pub mod c08;
pub mod c09;
pub mod c10;
pub mod c11;
pub mod c12;
pub mod c13;
pub mod c14;
pub mod c15;
pub mod c16;
pub mod c17;
pub mod c18;
pub mod c19;
pub mod c20;

pub fn all() -> Vec<Prop> {
    vec![c01::prop(), c02::prop(), c03::prop(), c04::prop(), c05::prop(), c06::prop(), c07::prop(), c08::prop(), c09::prop(), c10::prop(), c11::prop(), c12::prop(), c13::prop(), c14::prop(), c15::prop(), c16::prop(), c17::prop(), c18::prop(), c19::prop(), c20::prop()]
}
