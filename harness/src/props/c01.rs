//! C01 – raw-data decoders are total: panic / abort / bounded-progress monitor over structured fuzz.
use crate::cb;
use crate::core::*;
use crate::enc::{self, Adc, Pwb, Trg, A16_MACS};
use crate::refs::*;
use alpha_g_detector::alpha16::{self, AdcPacket, AdcV3Packet};
use alpha_g_detector::chronobox::chronobox_fifo;
use alpha_g_detector::midas::*;
use alpha_g_detector::padwing::{self, Chunk, PwbPacket, PwbV2Packet};
use alpha_g_detector::trigger::{TrgPacket, TrgV3Packet};
use serde_json::json;

pub fn prop() -> Prop {
    Prop {
        id: "C01",
        level: "exploration",
        rule: "per decoder (AdcPacket/AdcV3Packet, Chunk, PwbPacket/PwbV2Packet from bytes and from Vec<Chunk>, TrgPacket/TrgV3Packet, chronobox_fifo, all *BankName/BoardId string parsers, all id conversions): (i) random bytes in boundary length classes up to 65 564 bytes; (ii) valid packets with one field at {0,1,2,3,mid,max-2,max-1,max} with CRC/baseline re-fixed and not re-fixed; (iii) every single-byte overwrite with 8 values, every single-bit flip, every truncation and extension by 1..8 bytes of seed packets; (iv) chunk lists: subsets, duplicates, permutations, >65536 chunks with repeated ids; (v) FIFO streams; (vi) all 128^4 ASCII names (checked profile too) + random UTF-8; (vii) id conversions exhaustively. Every call runs under catch_unwind in a release and an overflow-checked build; on Ok every accessor and Display is exercised. Non-trivial = distinct inputs (hash) that got past the length check of their decoder. Added after the seeded-change rounds: slices of 65 552..65 568 and 131 108 bytes, maximum-size chunks (payload 65 524..65 535) with consistent CRCs and appended zero words, ADC packets of 32 767..70 000 samples, chunk lists whose final chunk is longer than the others, every arrangement of multi-byte characters in a 4-byte string. Round 4: every header offset x width 1/2/4 of a TRG / ADC / chunk / PWB seed set to every integer literal found in the library sources (read from the tree under test) or a boundary value, alone and jointly with every single-bit flip and every byte forced to 00/FF elsewhere in the header. Round 6: two or three chunks of a list carrying the same extreme id (0xFFFF, 0xFFFE, 0x7FFF, 0x8000, 0). Round 8: well-formed chunk lists whose payloads add up to more than the largest PWB packet (81 268 bytes).",
        assumptions: &["rustc overflow checks and debug assertions (profile `checked`) trap arithmetic overflow; aborts and stalls are caught by the child-shard driver and the CPU-time watchdog"],
        profiles: both,
        shards: shards16,
        no_progress_cpu_s: Some(60),
        run,
        finalize: None,
    }
}

/// Call a decoder under the monitor; on Ok run `touch` (accessors, Display) under the monitor too.
fn total<T, E: std::fmt::Debug>(ctx: &mut Ctx, name: &str, input: &[u8], past_len: bool, f: impl FnOnce() -> Result<T, E>, touch: impl FnOnce(&T)) -> bool {
    ctx.eval();
    if past_len {
        let mut d = Digest::new();
        d.bytes(name.as_bytes());
        d.bytes(input);
        ctx.nontrivial(d.0);
    }
    match guard(f) {
        Err(p) => {
            ctx.panic_violation(name, &p, json!({"decoder": name, "bytes": hex(input)}));
            false
        }
        Ok(Err(e)) => {
            ctx.count(&format!("{}: Err", name));
            // the Debug/Display of the typed error must not panic either
            if let Err(p) = guard(|| format!("{:?}", e).len()) {
                ctx.panic_violation(&format!("{} error Debug", name), &p, json!({"bytes": hex(input)}));
            }
            false
        }
        Ok(Ok(v)) => {
            ctx.count(&format!("{}: Ok", name));
            if let Err(p) = guard(|| touch(&v)) {
                ctx.panic_violation(&format!("{} accessors", name), &p, json!({"decoder": name, "bytes": hex(input)}));
            }
            true
        }
    }
}

/// The monitor without the bookkeeping, for the very large enumerations: decode, and on Ok touch the accessors.
fn quiet<T, E>(ctx: &mut Ctx, name: &str, input: &[u8], f: impl FnOnce() -> Result<T, E>, touch: impl FnOnce(&T)) {
    ctx.eval();
    if let Err(p) = guard(|| {
        if let Ok(v) = f() {
            touch(&v)
        }
    }) {
        ctx.panic_violation(name, &p, json!({"decoder": name, "bytes": hex(input)}));
    }
}
fn quiet_all(ctx: &mut Ctx, which: u8, b: &[u8]) {
    match which {
        0 => {
            quiet(ctx, "TrgV3Packet", b, || TrgV3Packet::try_from(b), |p| {
                let _ = (p.aw16_multiplicity(), p.aw16_bus(), p.bsc64_bus(), p.bsc64_multiplicity(), p.coincidence_latch(), p.firmware_revision());
            });
            quiet(ctx, "TrgPacket", b, || TrgPacket::try_from(b), |p| {
                let _ = (p.scaledown_counter(), p.drift_veto_counter());
            });
        }
        1 => {
            quiet(ctx, "AdcV3Packet", b, || AdcV3Packet::try_from(b), |p| {
                let _ = (p.waveform().len(), p.suppression_baseline(), p.keep_last(), p.board_id(), p.channel_id());
            });
            quiet(ctx, "AdcPacket", b, || AdcPacket::try_from(b), |p| {
                let _ = (p.waveform().len(), p.suppression_baseline(), p.keep_last());
            });
        }
        2 => quiet(ctx, "Chunk", b, || Chunk::try_from(b), |c| {
            let _ = (c.board_id(), c.after_id(), c.payload().len());
        }),
        _ => {
            quiet(ctx, "PwbV2Packet(bytes)", b, || PwbV2Packet::try_from(b), touch_pwb_v2);
            quiet(ctx, "PwbPacket(bytes)", b, || PwbPacket::try_from(b), touch_pwb);
        }
    }
}

fn adc(ctx: &mut Ctx, b: &[u8]) {
    total(ctx, "AdcV3Packet", b, b.len() >= 16, || AdcV3Packet::try_from(b), |p| {
        let _ = (p.packet_type(), p.packet_version(), p.accepted_trigger(), p.module_id(), p.channel_id(), p.requested_samples(), p.event_timestamp(), p.board_id(), p.trigger_offset(), p.build_timestamp(), p.waveform().len(), p.suppression_baseline(), p.keep_last(), p.keep_bit(), p.is_suppression_enabled());
        let _ = format!("{}", p);
    });
    total(ctx, "AdcPacket", b, b.len() >= 16, || AdcPacket::try_from(b), |p| {
        let _ = (p.packet_type(), p.packet_version(), p.accepted_trigger(), p.module_id(), p.channel_id(), p.requested_samples(), p.event_timestamp(), p.board_id(), p.trigger_offset(), p.build_timestamp(), p.waveform().len(), p.suppression_baseline(), p.keep_last(), p.keep_bit(), p.is_suppression_enabled(), p.is_v3());
        let _ = format!("{}", p);
    });
}
fn chunk(ctx: &mut Ctx, b: &[u8]) {
    total(ctx, "Chunk", b, b.len() >= 28, || Chunk::try_from(b), |c| {
        let _ = (c.board_id(), c.packet_sequence(), c.channel_sequence(), c.after_id(), c.is_end_of_message(), c.chunk_id(), c.header_crc32c(), c.payload().len(), c.payload_crc32c());
        let _ = format!("{}", c);
    });
}
fn touch_pwb_v2(p: &PwbV2Packet) {
    let _ = (p.packet_version(), p.after_id(), p.compression(), p.trigger_source(), p.board_id(), p.trigger_delay(), p.trigger_timestamp(), p.last_sca_cell(), p.requested_samples(), p.channels_sent().len(), p.channels_over_threshold().len(), p.event_counter(), p.fifo_max_depth(), p.event_descriptor_write_depth(), p.event_descriptor_read_depth());
    for i in 1..=79u16 {
        let _ = p.waveform_at(padwing::ChannelId::try_from(i).unwrap());
    }
    let _ = format!("{}", p);
}
fn touch_pwb(p: &PwbPacket) {
    let _ = (p.packet_version(), p.after_id(), p.compression(), p.trigger_source(), p.board_id(), p.trigger_delay(), p.trigger_timestamp(), p.last_sca_cell(), p.requested_samples(), p.channels_sent().len(), p.channels_over_threshold().len(), p.event_counter(), p.fifo_max_depth(), p.event_descriptor_write_depth(), p.event_descriptor_read_depth(), p.is_v2());
    for i in 1..=79u16 {
        let c = padwing::ChannelId::try_from(i).unwrap();
        if let Some(w) = p.waveform_at(c) {
            let _ = padwing::suppression_baseline(0, w);
        }
    }
    let _ = format!("{}", p);
}
fn pwb(ctx: &mut Ctx, b: &[u8]) {
    total(ctx, "PwbV2Packet(bytes)", b, b.len() >= 56, || PwbV2Packet::try_from(b), touch_pwb_v2);
    total(ctx, "PwbPacket(bytes)", b, b.len() >= 56, || PwbPacket::try_from(b), touch_pwb);
}
fn pwb_chunks(ctx: &mut Ctx, chunks: &[Chunk], tag: &[u8]) {
    let v1 = chunks.to_vec();
    let v2 = chunks.to_vec();
    total(ctx, "PwbV2Packet(chunks)", tag, !chunks.is_empty(), || PwbV2Packet::try_from(v1), touch_pwb_v2);
    total(ctx, "PwbPacket(chunks)", tag, !chunks.is_empty(), || PwbPacket::try_from(v2), touch_pwb);
}
fn trg(ctx: &mut Ctx, b: &[u8]) {
    total(ctx, "TrgV3Packet", b, b.len() == 80, || TrgV3Packet::try_from(b), |p| {
        let _ = (p.udp_counter(), p.timestamp(), p.output_counter(), p.input_counter(), p.pulser_counter(), p.trigger_bitmap(), p.nim_bitmap(), p.esata_bitmap(), p.satisfied_mlu(), p.aw16_prompt(), p.drift_veto_counter(), p.scaledown_counter(), p.aw16_multiplicity(), p.aw16_bus(), p.bsc64_bus(), p.bsc64_multiplicity(), p.coincidence_latch(), p.firmware_revision());
        let _ = format!("{:?}", p);
    });
    total(ctx, "TrgPacket", b, b.len() == 80, || TrgPacket::try_from(b), |p| {
        let _ = (p.udp_counter(), p.timestamp(), p.output_counter(), p.input_counter(), p.pulser_counter(), p.trigger_bitmap(), p.nim_bitmap(), p.esata_bitmap(), p.satisfied_mlu(), p.aw16_prompt(), p.drift_veto_counter(), p.scaledown_counter(), p.aw16_multiplicity(), p.aw16_bus(), p.bsc64_bus(), p.bsc64_multiplicity(), p.coincidence_latch(), p.firmware_revision(), p.is_v3());
    });
}
fn fifo(ctx: &mut Ctx, b: &[u8]) {
    ctx.eval();
    if b.len() >= 4 {
        let mut d = Digest::new();
        d.bytes(b"fifo");
        d.bytes(b);
        ctx.nontrivial(d.0);
    }
    match guard(|| {
        let mut s = b;
        let v = chronobox_fifo(&mut s);
        for e in &v {
            let _ = format!("{:?}", e);
        }
        (v.len(), s.len())
    }) {
        Ok((n, rest)) => {
            ctx.count("chronobox_fifo: returned");
            // bounded progress: every accepted entry consumes >= 4 bytes
            if n * 4 > b.len() - rest {
                ctx.violation("chronobox_fifo returned more entries than bytes consumed / 4", format!("{} entries, {} bytes consumed", n, b.len() - rest), json!({"bytes": hex(b)}));
            }
        }
        Err(p) => ctx.panic_violation("chronobox_fifo", &p, json!({"bytes": hex(b)})),
    }
}
fn names(ctx: &mut Ctx, s: &str) {
    ctx.eval();
    let r = guard(|| {
        let mut n = 0;
        n += MainEventBankName::try_from(s).is_ok() as u32;
        n += Adc16BankName::try_from(s).is_ok() as u32;
        n += Adc32BankName::try_from(s).is_ok() as u32;
        n += Alpha16BankName::try_from(s).map(|b| (b.board_id(), b.channel_id())).is_ok() as u32;
        n += PadwingBankName::try_from(s).is_ok() as u32;
        n += TriggerBankName::try_from(s).is_ok() as u32;
        n += Trb3BankName::try_from(s).is_ok() as u32;
        n += Seq2BankName::try_from(s).is_ok() as u32;
        n += McVertexBankName::try_from(s).is_ok() as u32;
        n += ChronoboxBankName::try_from(s).is_ok() as u32;
        n += alpha16::BoardId::try_from(s).is_ok() as u32;
        n += padwing::BoardId::try_from(s).is_ok() as u32;
        n += alpha_g_detector::chronobox::BoardId::try_from(s).is_ok() as u32;
        if let Err(e) = MainEventBankName::try_from(s) {
            let _ = format!("{} {:?}", e, e);
        }
        n
    });
    match r {
        Ok(n) => {
            if n > 0 {
                ctx.count("string parsers: some Ok");
                ctx.nontrivial(fnv_str(s) ^ 0x55);
            } else {
                ctx.count("string parsers: all Err");
            }
        }
        Err(p) => ctx.panic_violation("bank-name / board-id string parser", &p, json!({"string": s, "bytes": hex(s.as_bytes())})),
    }
}

/// All strings of exactly 4 bytes built from ASCII name characters and 2-, 3- and 4-byte characters in
/// every arrangement (1+1+2, 1+2+1, 2+1+1, 2+2, 1+3, 3+1, 4), plus the same with 2..=3 and 5..=6 bytes.
pub fn four_byte_utf8_strings() -> Vec<String> {
    let ascii = ['A', 'B', 'C', 'P', 'T', 'M', 'S', 'R', 'V', 'X', 'F', '0', '1', '9', 'a', 'g'];
    let two = ['é', 'ß', '¹', '٣'];
    let three = ['€', '中', '１'];
    let four = ['😀', '\u{10FFFF}'];
    let mut out = Vec::new();
    for a in ascii {
        for b in ascii {
            for t in two {
                out.push([a, b, t].iter().collect());
                out.push([a, t, b].iter().collect());
                out.push([t, a, b].iter().collect());
                out.push([a, b, a, t].iter().collect()); // 5 bytes
            }
        }
        for t in three {
            out.push([a, t].iter().collect());
            out.push([t, a].iter().collect());
            out.push([a, a, t].iter().collect()); // 5 bytes
            out.push([t].iter().collect()); // 3 bytes
        }
        for t in two {
            out.push([a, t].iter().collect()); // 3 bytes
            out.push([t, a].iter().collect());
        }
    }
    for t in two {
        for u in two {
            out.push([t, u].iter().collect());
        }
    }
    for f in four {
        out.push([f].iter().collect());
    }
    out
}

const VALS8: [u8; 8] = [0, 1, 2, 0x7F, 0x80, 0xFD, 0xFE, 0xFF];

/// every single-byte overwrite (8 values), single-bit flip, truncation and extension of a seed
fn mutate_all(ctx: &mut Ctx, seed: &[u8], rng: &mut Rng, max_positions: usize, mut f: impl FnMut(&mut Ctx, &[u8])) {
    f(ctx, seed);
    let n = seed.len();
    let positions: Vec<usize> = if n <= max_positions { (0..n).collect() } else { (0..max_positions / 2).chain(n - max_positions / 2..n).collect() };
    for &pos in &positions {
        for v in VALS8 {
            let mut b = seed.to_vec();
            b[pos] = v;
            f(ctx, &b);
        }
        for bit in 0..8 {
            let mut b = seed.to_vec();
            b[pos] ^= 1 << bit;
            f(ctx, &b);
        }
    }
    for l in (0..n).rev().take(max_positions).chain(0..n.min(64)) {
        f(ctx, &seed[..l]);
    }
    for e in 1..=8 {
        let mut b = seed.to_vec();
        b.extend(rng.bytes(e));
        f(ctx, &b);
        let mut b = seed.to_vec();
        b.extend(vec![0u8; e]);
        f(ctx, &b);
    }
}

fn refix_chunk(b: &mut Vec<u8>) {
    let n = b.len();
    if n >= 28 {
        let h = !enc::crc32c(&b[..16]);
        b[16..20].copy_from_slice(&h.to_le_bytes());
        let p = !enc::crc32c(&b[20..n - 4]);
        b[n - 4..].copy_from_slice(&p.to_le_bytes());
    }
}

fn run(ctx: &mut Ctx) {
    let thorough = !ctx.quick();
    let lens: Vec<usize> = vec![0, 1, 2, 3, 4, 15, 16, 17, 27, 28, 29, 31, 32, 35, 36, 37, 38, 55, 56, 57, 60, 79, 80, 81, 84, 243, 244, 245, 248, 4095, 4096, 4097, 65535, 65536, 65552, 65556, 65560, 65564, 65568, 131072 + 36];
    // ---- (i) random bytes in length classes, with plausible leading bytes so that the first checks pass
    let n = ctx.tier.pick(30_000, 2_000_000);
    ctx.cases("random-bytes", n, |ctx, i, rng| {
        let l = lens[(rng.usize(lens.len()))];
        let l = if l > 5000 && i % 50 != 0 { rng.usize(300) } else { l };
        let mut b = rng.bytes(l);
        match rng.below(6) {
            0 if l >= 8 => {
                b[0] = 1;
                b[1] = 3;
                b[4] = rng.below(8) as u8;
                b[5] = if rng.bool() { rng.below(16) as u8 } else { 128 + rng.below(32) as u8 };
                if l >= 20 {
                    b[12] = 0;
                    b[13] = 0;
                    b[14..20].copy_from_slice(&rng.pick(&A16_MACS).1);
                }
            }
            1 if l >= 28 => {
                let m = rng.pick(&PWB_BOARDS).1;
                b[..4].copy_from_slice(&m[..4]);
                b[10] = rng.below(4) as u8;
                b[11] = rng.below(2) as u8;
                let cl = (l - 24 - rng.usize(4)) as u16;
                b[14..16].copy_from_slice(&cl.to_le_bytes());
                if rng.bool() {
                    refix_chunk(&mut b);
                }
            }
            2 if l >= 24 => {
                b[0] = 2;
                b[1] = b'A' + rng.below(4) as u8;
                b[2] = 0;
                b[3] = *rng.pick(&[0u8, 1, 3]);
                b[4..10].copy_from_slice(&rng.pick(&PWB_BOARDS).1);
                b[18] = 0;
                b[19] = 0;
                b[21] &= 1;
                b[23] &= 1;
            }
            _ => {}
        }
        adc(ctx, &b);
        chunk(ctx, &b);
        pwb(ctx, &b);
        trg(ctx, &b);
        fifo(ctx, &b);
    });
    // ---- one field at a constant taken from the library's own sources (or a boundary value) and, jointly, one
    // more bit / byte changed elsewhere in the header: totality must not hinge on particular field values
    let dict = super::source_dictionary("detector/src");
    ctx.cases("dictionary-pairs", 80 + 40 + 24 + 56, |ctx, k, rng| {
        let k = k as usize;
        let mut n = 0;
        if k < 80 {
            let seed = Trg::simple(rng.next() as u32, 0x0123_4567).encode();
            n += super::dict_pairs(&seed, k, 0..80, &dict, |_| {}, |b| quiet_all(ctx, 0, b));
        } else if k < 120 {
            let off = k - 80;
            let wf = super::c02::content(rng, 3, 70);
            for sup in [false, true] {
                let mut a = Adc::simple(rng.pick(&A16_MACS).1, rng.below(32) as u8, wf.clone());
                if sup {
                    a.suppression = true;
                    a.keep_bit = true;
                    a.keep_last = 35;
                    a.requested_samples = 74;
                }
                let seed = a.encode();
                let l = seed.len();
                let off = if off < 36 { off } else { l - 40 + off }; // header offsets, then the footer
                n += super::dict_pairs(&seed, off, 0..36, &dict, |_| {}, |b| quiet_all(ctx, 1, b));
            }
        } else if k < 144 {
            let off = k - 120;
            let board = *rng.pick(&PWB_BOARDS);
            let c = enc::Chunk { device_id: pwb_device_id(&board.1), packet_sequence: 1, channel_sequence: 2, channel_id: rng.below(4) as u8, flags: 1, chunk_id: 0, payload: rng.bytes(9) };
            let seed = c.encode();
            for refix in [false, true] {
                n += super::dict_pairs(&seed, off.min(seed.len() - 4), 0..24, &dict, |x| if refix { refix_chunk(x) }, |b| quiet_all(ctx, 2, b));
            }
        } else {
            let off = k - 144;
            let board = *rng.pick(&PWB_BOARDS);
            let p = Pwb::new('B', board.1, 5, vec![(3, vec![1, -2, 3, -4, 5]), (40, vec![9; 5])]);
            let seed = p.encode();
            n += super::dict_pairs(&seed, off, 0..56, &dict, |_| {}, |b| quiet_all(ctx, 3, b));
        }
        ctx.count_n("inputs with a field at a source constant", n);
    });
    ctx.require("inputs with a field at a source constant", 1_000_000);
    // ---- (ii)+(iii) ADC
    ctx.cases("adc", ctx.tier.pick(24, 200), |ctx, i, rng| {
        let n = *rng.pick(&[64usize, 65, 66, 70, 100, 697]);
        let wf = super::c02::content(rng, (i % 9) as usize, n);
        let mut a = Adc::simple(rng.pick(&A16_MACS).1, rng.below(32) as u8, wf.clone());
        if i % 3 == 1 {
            a.suppression = true;
            a.keep_bit = true;
            a.keep_last = 34 + rng.below(((n + 4) / 2 - 33).max(1) as u64) as u16;
            a.requested_samples = n as u16 + 2 + rng.below(5) as u16;
        }
        if i % 3 == 2 {
            a.keep_bit = true;
            a.keep_last = 34;
        }
        if i == 0 {
            ctx.sample(json!({"kind": "ADC seed packet (every byte/bit mutated, truncated, extended)", "bytes": hex_short(&a.encode())}));
        }
        // one field at each boundary value, baseline re-fixed automatically by the encoder
        for v in [0u16, 1, 2, 3, 33, 34, 35, 0x7FF, 0xFFD, 0xFFE, 0xFFF] {
            let mut x = a.clone();
            x.keep_last = v;
            adc(ctx, &x.encode());
            x.keep_bit = !x.keep_bit;
            adc(ctx, &x.encode());
            x.suppression = !x.suppression;
            adc(ctx, &x.encode());
        }
        for v in [0u16, 1, 2, 3, 4, n as u16, n as u16 + 1, n as u16 + 2, n as u16 + 3, 0x7FFF, 0x8000, 0xFFFD, 0xFFFE, 0xFFFF] {
            for sup in [false, true] {
                let mut x = a.clone();
                x.requested_samples = v;
                x.suppression = sup;
                x.keep_bit |= sup;
                if sup && x.keep_last < 34 {
                    x.keep_last = 34;
                }
                adc(ctx, &x.encode());
                adc(ctx, &x.encode_short());
                // short waveforms (error path that prints `max: requested_samples - 2`)
                let mut y = x.clone();
                y.waveform.truncate(rng.usize(64));
                adc(ctx, &y.encode());
            }
        }
        for w in [vec![i16::MIN; n], vec![i16::MAX; n], (0..n).map(|k| if k % 2 == 0 { i16::MIN } else { i16::MAX }).collect::<Vec<_>>()] {
            let mut x = a.clone();
            x.waveform = w;
            adc(ctx, &x.encode());
        }
        let max_pos = if thorough { 2000 } else { 120 };
        mutate_all(ctx, &a.encode(), rng, max_pos, adc);
        let mut s = a.clone();
        s.suppression = true;
        s.keep_bit = false;
        s.keep_last = 0;
        mutate_all(ctx, &s.encode_short(), rng, 64, adc);
    });
    // ---- chunks and PWB payloads
    ctx.cases("pwb", ctx.tier.pick(24, 200), |ctx, i, rng| {
        let rs = *rng.pick(&[0u16, 1, 2, 3, 8, 9, 64, 511]);
        let nch = 1 + rng.usize(if i % 4 == 0 { 79 } else { 5 });
        let mut ids: Vec<u16> = (1..=79).collect();
        rng.shuffle(&mut ids);
        let mut ids = ids[..nch].to_vec();
        ids.sort();
        let board = *rng.pick(&PWB_BOARDS);
        let p = Pwb::new(['A', 'B', 'C', 'D'][rng.usize(4)], board.1, rs, ids.iter().map(|c| (*c, super::c05::samples(rng, rs, i))).collect());
        let payload = p.encode();
        // field boundary values
        for v in [0u16, 1, 2, 3, 255, 256, 510, 511, 512, 513, 0x7FFF, 0x8000, 0xFFFE, 0xFFFF] {
            let mut x = p.clone();
            x.requested_samples = v;
            pwb(ctx, &x.encode());
            let mut x = p.clone();
            x.last_sca_cell = v;
            pwb(ctx, &x.encode());
            let mut x = p.clone();
            if let Some(c) = x.channels.first_mut() {
                c.0 = v;
            }
            pwb(ctx, &x.encode());
        }
        for bit in [0u32, 1, 2, 3, 15, 16, 28, 29, 53, 54, 66, 67, 76, 77, 78, 79] {
            let mut x = p.clone();
            x.sent_mask ^= 1 << bit;
            pwb(ctx, &x.encode());
            let mut x = p.clone();
            x.threshold_mask ^= 1 << bit;
            pwb(ctx, &x.encode());
            // mask with bits 79.. set via raw bytes
            let mut b = payload.clone();
            b[33] |= 0x80;
            pwb(ctx, &b);
        }
        // masks full of ones with a short body, and empty masks with a long body
        let mut x = p.clone();
        x.sent_mask = (1u128 << 79) - 1;
        pwb(ctx, &x.encode());
        x.sent_mask = 0;
        pwb(ctx, &x.encode());
        let max_pos = if thorough { 1500 } else { 140 };
        mutate_all(ctx, &payload, rng, max_pos, pwb);
        // chunks of that payload: mutated with and without CRC re-fix
        let cs = *rng.pick(&[1usize, 4, 7, 52, 100, 1400, 65535]);
        let cs = if payload.len() / cs > 300 { payload.len() / 40 + 1 } else { cs };
        let raw = p.chunks(pwb_device_id(&board.1), rng.below(4) as u8, cs);
        let c0 = raw[rng.usize(raw.len())].encode();
        if i == 0 {
            ctx.sample(json!({"kind": "PWB chunk seed", "bytes": hex_short(&c0)}));
        }
        mutate_all(ctx, &c0, rng, if thorough { 400 } else { 80 }, chunk);
        mutate_all(ctx, &c0, rng, if thorough { 200 } else { 48 }, |ctx, b| {
            let mut x = b.to_vec();
            refix_chunk(&mut x);
            chunk(ctx, &x);
        });
        for v in [0u16, 1, 2, 3, 4, 0x7FFF, 0xFFFC, 0xFFFD, 0xFFFE, 0xFFFF] {
            let mut b = c0.clone();
            b[14..16].copy_from_slice(&v.to_le_bytes());
            refix_chunk(&mut b);
            chunk(ctx, &b);
            let mut b = c0.clone();
            b[12..14].copy_from_slice(&v.to_le_bytes());
            refix_chunk(&mut b);
            chunk(ctx, &b);
        }
        // (iv) chunk lists: permutations, subsets, duplicates, payload mutations with valid CRCs
        let dec: Vec<Chunk> = raw.iter().filter_map(|c| super::lib_chunk(ctx, &c.encode())).collect();
        if dec.len() != raw.len() {
            return;
        }
        let tag = &payload[..payload.len().min(64)];
        pwb_chunks(ctx, &dec, tag);
        pwb_chunks(ctx, &[], tag);
        if raw.len() >= 3 {
            // final chunk longer than the others (legal), in order and reversed
            let mut r2 = raw.clone();
            let last = r2.pop().unwrap();
            let k = r2.len() - 1;
            r2[k].payload.extend(last.payload);
            r2[k].flags = 1;
            let mut l: Vec<Chunk> = r2.iter().filter_map(|c| super::lib_chunk(ctx, &c.encode())).collect();
            pwb_chunks(ctx, &l, tag);
            l.reverse();
            pwb_chunks(ctx, &l, tag);
            ctx.count("chunk lists with a longer final chunk");
        }
        for _ in 0..20 {
            let mut l = dec.clone();
            match rng.below(6) {
                0 => rng.shuffle(&mut l),
                1 => {
                    let k = rng.usize(l.len());
                    l.remove(k);
                }
                2 => {
                    let k = rng.usize(l.len());
                    let c = l[k].clone();
                    l.push(c);
                }
                3 => {
                    l.truncate(rng.usize(l.len() + 1));
                }
                4 => {
                    // payload byte mutated inside a chunk, CRC valid
                    let k = rng.usize(raw.len());
                    let mut r = raw[k].clone();
                    let j = rng.usize(r.payload.len());
                    r.payload[j] = *rng.pick(&VALS8);
                    if let Some(c) = super::lib_chunk(ctx, &r.encode()) {
                        l[k] = c;
                    }
                }
                5 if rng.bool() => {
                    // two or three chunks carrying the same extreme id (arithmetic on ids next to a repeated maximum)
                    let id = *rng.pick(&[0xFFFFu16, 0xFFFE, 0x7FFF, 0x8000, 0]);
                    for _ in 0..2 + rng.usize(2) {
                        let k = rng.usize(raw.len());
                        let mut r = raw[k].clone();
                        r.chunk_id = id;
                        if let Some(c) = super::lib_chunk(ctx, &r.encode()) {
                            if rng.bool() {
                                l[k] = c;
                            } else {
                                l.push(c);
                            }
                        }
                    }
                    if rng.bool() {
                        rng.shuffle(&mut l);
                    }
                }
                _ => {
                    let k = rng.usize(raw.len());
                    let mut r = raw[k].clone();
                    r.chunk_id = *rng.pick(&[0u16, 1, 0x7FFF, 0xFFFE, 0xFFFF]);
                    r.flags = rng.below(2) as u8;
                    if let Some(c) = super::lib_chunk(ctx, &r.encode()) {
                        l[k] = c;
                    }
                }
            }
            pwb_chunks(ctx, &l, tag);
        }
    });
    // chunks of the largest legal sizes (16-bit length field at its maximum) and their neighbours
    ctx.cases("max-size-chunks", 12, |ctx, i, rng| {
        let plen = [65_524usize, 65_528, 65_529, 65_531, 65_532, 65_533, 65_534, 65_535, 32_768, 32_767, 16_384, 65_530][i as usize];
        let board = *rng.pick(&PWB_BOARDS);
        let c = enc::Chunk { device_id: pwb_device_id(&board.1), packet_sequence: 1, channel_sequence: 2, channel_id: rng.below(4) as u8, flags: 1, chunk_id: 0, payload: rng.bytes(plen) };
        let b = c.encode();
        chunk(ctx, &b);
        ctx.count("chunks with payload >= 16 KiB decoded");
        for extra in [4usize, 8, 12] {
            // whole zero words appended, both CRCs consistent
            let mut x = b[..b.len() - 4].to_vec();
            x.extend(vec![0u8; extra + 4]);
            refix_chunk(&mut x);
            chunk(ctx, &x);
            let mut x = b.clone();
            x.truncate(b.len() - extra);
            refix_chunk(&mut x);
            chunk(ctx, &x);
        }
        for v in [0u16, 1, 0x7FFF, 0x8000, 0xFFFC, 0xFFFD, 0xFFFE, 0xFFFF] {
            let mut x = b.clone();
            x[14..16].copy_from_slice(&v.to_le_bytes());
            refix_chunk(&mut x);
            chunk(ctx, &x);
        }
        // ADC packets with 16-bit-limit sample counts
        let n = [32_767usize, 32_768, 65_534, 65_535, 65_536, 65_537, 70_000][(i % 7) as usize];
        let mut a = Adc::simple(A16_MACS[0].1, 1, vec![i16::MIN; n]);
        for rs in [0u16, 1, 2, 699, 65_535, (n as u16).wrapping_add(2)] {
            a.requested_samples = rs;
            for sup in [false, true] {
                a.suppression = sup;
                a.keep_bit = sup;
                a.keep_last = if sup { 34 } else { 0 };
                adc(ctx, &a.encode());
            }
        }
    });
    // well-formed chunk lists whose payloads add up to more than the largest PWB packet (81 268 bytes): 2..4 chunks of up
    // to 65 535 bytes, garbage and a valid packet followed by surplus bytes
    ctx.cases("oversize-messages", ctx.tier.pick(6, 24), |ctx, i, rng| {
        let board = *rng.pick(&PWB_BOARDS);
        let sizes: Vec<usize> = match i % 6 {
            0 => vec![65_535, 65_535],
            1 => vec![65_535, 15_734],
            2 => vec![40_634, 40_634, 1],
            3 => vec![30_000, 30_000, 30_000],
            4 => vec![65_535, 65_535, 65_535, 65_535],
            _ => vec![65_535, 15_733, 1],
        };
        let total: usize = sizes.iter().sum();
        // content: a maximal valid packet first (79 channels x 511 samples), then filler
        let p = Pwb::new('A', board.1, 511, (1..=79).map(|c| (c, super::c05::samples(rng, 511, i))).collect());
        let mut content = p.encode();
        content.resize(total.max(content.len()), 0xCC);
        let mut list = Vec::new();
        let mut at = 0;
        for (k, sz) in sizes.iter().enumerate() {
            let c = enc::Chunk { device_id: pwb_device_id(&board.1), packet_sequence: 1, channel_sequence: 1, channel_id: 0, flags: (k + 1 == sizes.len()) as u8, chunk_id: k as u16, payload: content[at..(at + sz).min(content.len())].to_vec() };
            at += sz;
            if let Some(c) = super::lib_chunk(ctx, &c.encode()) {
                list.push(c);
            }
        }
        ctx.count("chunk lists with more than 81 268 payload bytes");
        pwb_chunks(ctx, &list, &(total as u64).to_le_bytes());
        list.reverse();
        pwb_chunks(ctx, &list, &(total as u64 + 1).to_le_bytes());
    });
    // > 65536 chunks with repeated ids, and the maximal 65536-chunk message
    ctx.cases("huge-chunk-lists", ctx.tier.pick(2, 8), |ctx, i, rng| {
        let board = *rng.pick(&PWB_BOARDS);
        let n = if i % 2 == 0 { 65536 + rng.usize(40) } else { 65536 };
        let mut list = Vec::with_capacity(n);
        let proto = enc::Chunk { device_id: pwb_device_id(&board.1), packet_sequence: 1, channel_sequence: 1, channel_id: 0, flags: 0, chunk_id: 0, payload: vec![2] };
        for k in 0..n {
            let mut c = proto.clone();
            c.chunk_id = k as u16; // wraps: ids repeat beyond 65535
            c.flags = (k + 1 == n) as u8;
            if let Some(c) = super::lib_chunk(ctx, &c.encode()) {
                list.push(c);
            }
        }
        if i % 4 >= 2 {
            rng.shuffle(&mut list);
        }
        ctx.count("chunk lists with >= 65536 chunks");
        pwb_chunks(ctx, &list, &(n as u64).to_le_bytes());
    });
    // ---- TRG
    ctx.cases("trg", ctx.tier.pick(8, 64), |ctx, _i, rng| {
        let t = Trg::simple(rng.next() as u32, *rng.pick(&[0u32, 1, 0x0FFF_FFFF, 0x1000_0000, 0xFFFF_FFFC, 0xFFFF_FFFF]));
        for v in [0u32, 1, 2, 0x7FFF_FFFF, 0x8000_0000, 0xFFFF_FFFE, 0xFFFF_FFFF] {
            let mut x = t.clone();
            x.input = v;
            trg(ctx, &x.encode());
            let mut x = t.clone();
            x.drift = v;
            trg(ctx, &x.encode());
            let mut x = t.clone();
            x.scaledown = v;
            trg(ctx, &x.encode());
            let mut x = t.clone();
            x.output = v;
            trg(ctx, &x.encode());
        }
        mutate_all(ctx, &t.encode(), rng, 80, trg);
    });
    // ---- FIFO streams
    ctx.cases("fifo", ctx.tier.pick(400, 20_000), |ctx, i, rng| {
        let (mut b, _, _) = super::c07::gen_stream(rng, if i % 10 == 0 { 400 } else { 40 });
        fifo(ctx, &b);
        if !b.is_empty() {
            for _ in 0..4 {
                let k = rng.usize(b.len());
                let old = b[k];
                b[k] = *rng.pick(&VALS8);
                fifo(ctx, &b);
                b[k] = old;
            }
            for l in (0..b.len()).rev().take(250) {
                fifo(ctx, &b[..l]);
            }
        }
        // pathological: tags repeated, blocks nested in blocks, only markers
        let mut t = Vec::new();
        for _ in 0..rng.usize(200) {
            t.extend(cb::TAG);
        }
        fifo(ctx, &t);
        t.extend(vec![0xFFu8; rng.usize(1000)]);
        fifo(ctx, &t);
    });
    ctx.cases("fifo-big", ctx.tier.pick(2, 16), |ctx, _i, rng| {
        // 65 KiB inputs
        let mut b = Vec::new();
        while b.len() < 65_536 {
            match rng.below(20) {
                0 => b.extend(cb::scaler_block(rng)),
                1 => b.extend(cb::marker_word(rng.next() as u32)),
                _ => b.extend(cb::ts_word(rng.below(59) as u8, rng.bool(), rng.next())),
            }
        }
        fifo(ctx, &b);
        fifo(ctx, &b[..65_535]);
        fifo(ctx, &vec![0x3Cu8; 65_536]);
        fifo(ctx, &[&cb::TAG[..], &vec![0u8; 65_532][..]].concat());
    });
    // ---- (vi) strings: all ASCII 4-byte names + 2-byte board names + random UTF-8
    ctx.cases("names", 128, |ctx, a, _rng| {
        let a = a as u8;
        let mut any = 0u64;
        let r = guard(|| {
            let mut acc = 0u64;
            for b in 0..128u8 {
                for c in 0..128u8 {
                    for d in 0..128u8 {
                        let s = [a, b, c, d];
                        let st = std::str::from_utf8(&s).unwrap();
                        // the first-letter dispatch is part of the parser: call the main one always, the
                        // specific ones for the letters they can accept and for a pseudo-random 1/64 of the rest
                        acc += MainEventBankName::try_from(st).is_ok() as u64;
                        if matches!(a, b'A' | b'B' | b'C' | b'M' | b'P' | b'S' | b'T') || (b ^ c ^ d) & 63 == 0 {
                            acc += Adc16BankName::try_from(st).is_ok() as u64 + Adc32BankName::try_from(st).is_ok() as u64 + PadwingBankName::try_from(st).is_ok() as u64 + ChronoboxBankName::try_from(st).is_ok() as u64 + Seq2BankName::try_from(st).is_ok() as u64 + TriggerBankName::try_from(st).is_ok() as u64 + Trb3BankName::try_from(st).is_ok() as u64 + McVertexBankName::try_from(st).is_ok() as u64;
                        }
                    }
                }
            }
            acc
        });
        match r {
            Ok(acc) => any += acc,
            Err(p) => ctx.panic_violation("bank-name parser (ASCII sweep)", &p, json!({"first_byte": a})),
        }
        ctx.eval_n(1 << 21);
        ctx.count_n("ASCII 4-byte names parsed (exhaustive 128^4)", 1 << 21);
        ctx.count_n("string parsers: Ok results in the ASCII sweep", any);
        ctx.distinct_enum += any;
    });
    ctx.cases("utf8", ctx.tier.pick(100_000, 3_000_000), |ctx, _i, rng| {
        let pool = ['A', 'B', 'C', 'P', 'T', 'M', 'S', '0', '1', '9', 'F', 'G', 'V', 'W', 'a', 'é', 'ß', '٣', '１', 'Ａ', '\u{10FFFF}', '\0', ' ', '+', '-', '\u{7f}', '中', '😀'];
        let l = rng.usize(9);
        let s: String = (0..l).map(|_| if rng.chance(0.2) { char::from_u32(rng.below(0x11_0000) as u32).unwrap_or('x') } else { *rng.pick(&pool) }).collect();
        names(ctx, &s);
        // a valid name with one char replaced by a multi-byte char at every position
        let base = *rng.pick(&["C09A", "B12F", "PC00", "ATAT", "TRBA", "MCVX", "CBF1", "SEQ2", "09", "cb01", "77"]);
        let mut ch: Vec<char> = base.chars().collect();
        let k = rng.usize(ch.len());
        ch[k] = *rng.pick(&['é', '中', '😀', '１']);
        names(ctx, &ch.iter().collect::<String>());
    });
    // every way a 4-byte string can be cut by multi-byte characters (char boundaries at each offset)
    ctx.cases("utf8-4byte", 1, |ctx, _i, _rng| {
        for s in four_byte_utf8_strings() {
            names(ctx, &s);
            ctx.count("4-byte strings with multi-byte characters parsed");
        }
    });
    // ---- (vii) id conversions, exhaustively where the domain is small
    ctx.cases("ids", 16, |ctx, part, rng| {
        let r = guard(|| {
            let mut ok = 0u64;
            if part == 0 {
                for v in 0..=255u8 {
                    ok += alpha16::Adc16ChannelId::try_from(v).is_ok() as u64 + alpha16::Adc32ChannelId::try_from(v).is_ok() as u64 + alpha16::ModuleId::try_from(v).is_ok() as u64 + padwing::AfterId::try_from(v).is_ok() as u64 + padwing::Compression::try_from(v).is_ok() as u64 + padwing::Trigger::try_from(v).is_ok() as u64 + alpha_g_detector::chronobox::ChannelId::try_from(v).is_ok() as u64;
                }
                for v in 0..=65535u16 {
                    ok += padwing::ResetChannelId::try_from(v).is_ok() as u64 + padwing::FpnChannelId::try_from(v).is_ok() as u64 + padwing::PadChannelId::try_from(v).is_ok() as u64 + padwing::ChannelId::try_from(v).is_ok() as u64 + EventId::try_from(v).is_ok() as u64;
                }
                for v in (0..70_000usize).chain([usize::MAX, usize::MAX - 1, 1 << 32, (1 << 32) - 1]) {
                    use alpha_g_detector::padwing::map::*;
                    ok += alpha_g_detector::alpha16::aw_map::TpcWirePosition::try_from(v).is_ok() as u64 + TpcPwbColumn::try_from(v).is_ok() as u64 + TpcPwbRow::try_from(v).is_ok() as u64 + PwbPadColumn::try_from(v).is_ok() as u64 + PwbPadRow::try_from(v).is_ok() as u64 + TpcPadColumn::try_from(v).is_ok() as u64 + TpcPadRow::try_from(v).is_ok() as u64;
                }
                for (_, m) in PWB_BOARDS.iter() {
                    for pos in 0..6 {
                        for d in [0u8, 1, 255] {
                            let mut x = *m;
                            x[pos] = x[pos].wrapping_add(d);
                            ok += padwing::BoardId::try_from(x).is_ok() as u64 + alpha16::BoardId::try_from(x).is_ok() as u64;
                            ok += padwing::BoardId::try_from(pwb_device_id(&x)).is_ok() as u64;
                        }
                    }
                }
                for v in [0u32, 1, u32::MAX, u32::MAX - 1, 1 << 31] {
                    ok += padwing::BoardId::try_from(v).is_ok() as u64;
                }
            } else {
                // all chars, split over 15 parts
                let per = 0x11_0000u32 / 15 + 1;
                for c in (part as u32 - 1) * per..((part as u32) * per).min(0x11_0000) {
                    if let Some(ch) = char::from_u32(c) {
                        ok += padwing::AfterId::try_from(ch).is_ok() as u64;
                    }
                }
            }
            ok
        });
        let _ = rng;
        match r {
            Ok(ok) => {
                ctx.eval_n(100_000);
                ctx.count_n("id conversions: Ok results", ok);
                ctx.distinct_enum += ok;
            }
            Err(p) => ctx.panic_violation("id conversion", &p, json!({"part": part})),
        }
    });
    for k in ["AdcV3Packet: Ok", "AdcV3Packet: Err", "Chunk: Ok", "Chunk: Err", "PwbV2Packet(bytes): Ok", "PwbV2Packet(bytes): Err", "PwbV2Packet(chunks): Ok", "PwbV2Packet(chunks): Err", "TrgV3Packet: Ok", "TrgV3Packet: Err", "chronobox_fifo: returned"] {
        ctx.require(k, 20);
    }
}
