//! C15 – clustering and vertexing conserve inputs and honour size and distance rules.
use crate::core::*;
use crate::geom::*;
use alpha_g_physics::reconstruction::{cluster_spacepoints, verif_hooks as vh, ClusteringResult, Track, VertexingResult};
use alpha_g_physics::SpacePoint;
use serde_json::json;
use std::f64::consts::PI;
use uom::si::length::meter;

pub fn prop() -> Prop {
    Prop {
        id: "C15",
        level: "exploration",
        rule: "point multisets of 0..=2000 points: random clouds, 1..5 physical tracks (shared direction with different z, opposite directions), the degenerate families of C14, duplicates of single points and of whole tracks, lines of exactly 12/13/14 points, points exactly 3 cm apart -> cluster_spacepoints; oracle: multiset equality (raw bits of r, phi, z with -0.0 normalised) input = clusters + remainder, every cluster >= 13 points and connected under distance <= 3 cm (union-find on SpacePoint::distance, +1e-12 m leniency). Track lists of 0..=8 tracks -> find_vertices; oracle: input multiset = primary + secondaries + remainder (helix parameters via hook), primary only with >= 2 tracks. Non-trivial = distinct inputs yielding >= 1 cluster or a non-empty remainder with duplicates, plus distinct track lists. Also: tracks that fail the vertexing pre-filters (short arc, far from the beamline) inside the z span of a vertex. Round 4: track lists holding two pieces of one trajectory (bit-identical helix, different t ranges: a stub under the length cut or a second long piece), the stub listed before or after. Round 5: pieces of 7..12 hits separated by holes of 3 cm +- 1e-10..1e-6 m. Round 6: compact pieces (a few mm long) with a hole of 3.01..5.4 cm, all within 3 cm of their centroid. Round 8: 58..72 separate prongs in one call (more than 64 clusters), points inside the inner cathode radius and beyond the wires.",
        assumptions: &["SpacePoint::distance is the linkage metric (as in the library), threshold relaxed by 1e-12 m so the oracle is never stricter than the code"],
        profiles: release_only,
        shards: shards16,
        no_progress_cpu_s: Some(300),
        run,
        finalize: None,
    }
}

fn key(p: &SpacePoint) -> (u64, u64, u64) {
    let f = |x: f64| if x == 0.0 { 0u64 } else { x.to_bits() };
    let (r, phi, z) = rpz(p);
    (f(r), f(phi), f(z))
}

pub fn point_set(rng: &mut Rng, m: usize) -> Vec<SpacePoint> {
    let mut pts: Vec<SpacePoint> = Vec::new();
    let ntracks = rng.usize(6);
    let vz = rng.range(-0.8, 0.8);
    let shared_psi = rng.range(-PI, PI);
    let mode = rng.below(5);
    for j in 0..ntracks {
        let t = match mode {
            0 => random_track(rng, vz),
            1 => {
                // same direction, different z: share Hough bins
                let step = rng.range(0.002, 0.006);
                track_points(rng, (0.0, 0.0, vz + 0.05 * j as f64), shared_psi, 1.5, 1.0, 0.1, step, 1e-4, 0.11, 0.19)
            }
            2 => {
                // opposite directions
                let step = rng.range(0.002, 0.006);
                track_points(rng, (0.0, 0.0, vz), shared_psi + PI * j as f64, 2.0, 1.0, 0.2, step, 1e-4, 0.11, 0.19)
            }
            3 => {
                let (f, n) = (rng.usize(FAMILIES.len()), 5 + rng.usize(40));
                family(rng, f, n)
            }
            _ => {
                // a line of exactly 12 / 13 / 14 points, 5 mm apart
                let n = 12 + rng.usize(3);
                let phi = rng.range(-PI, PI);
                (0..n).map(|i| sp(0.11 + 0.005 * i as f64, phi, vz)).collect()
            }
        };
        pts.extend(t);
    }
    if rng.chance(0.2) {
        // points exactly 3 cm apart along z
        let (r, phi) = (rng.range(0.11, 0.19), rng.range(-PI, PI));
        for i in 0..14 + rng.usize(5) {
            pts.push(sp(r, phi, -0.3 + 0.03 * i as f64));
        }
    }
    if rng.chance(0.3) && !pts.is_empty() {
        // duplicate a whole track / many single points
        let n = pts.len();
        let a = rng.usize(n);
        let b = (a + rng.usize(60)).min(n);
        let dup: Vec<_> = pts[a..b].to_vec();
        pts.extend(dup);
    }
    while pts.len() < m {
        if rng.chance(0.1) && !pts.is_empty() {
            let p = pts[rng.usize(pts.len())];
            pts.push(p);
        } else {
            pts.push(sp(rng.range(0.05, 0.25), rng.range(-PI, PI), rng.range(-1.3, 1.3)));
        }
    }
    if pts.len() > 2000 {
        pts.truncate(2000);
    }
    if rng.bool() {
        rng.shuffle(&mut pts);
    }
    pts
}

pub fn check_clustering(ctx: &mut Ctx, input: &[SpacePoint], res: &ClusteringResult) {
    let mut a: Vec<_> = input.iter().map(key).collect();
    a.sort();
    let mut b: Vec<_> = res.remainder.iter().map(key).collect();
    for c in &res.clusters {
        b.extend(c.iter().map(key));
    }
    b.sort();
    let inp = || json!({"points_r_phi_z_bits": super::c14::describe_points(input)});
    if a != b {
        let lost = a.iter().filter(|x| b.binary_search(x).is_err()).count();
        ctx.violation("clustering does not conserve its input multiset", format!("{} points in, {} out ({} clusters + remainder {}); {} input points missing", a.len(), b.len(), res.clusters.len(), res.remainder.len(), lost), inp());
        return;
    }
    for c in &res.clusters {
        let pts: Vec<SpacePoint> = c.iter().copied().collect();
        if pts.len() < 13 {
            ctx.violation("cluster with fewer than 13 points", format!("{} points", pts.len()), inp());
            return;
        }
        // single-linkage connectivity at 3 cm
        let n = pts.len();
        let mut parent: Vec<usize> = (0..n).collect();
        fn find(p: &mut Vec<usize>, i: usize) -> usize {
            let mut r = i;
            while p[r] != r {
                r = p[r];
            }
            let mut j = i;
            while p[j] != r {
                let nx = p[j];
                p[j] = r;
                j = nx;
            }
            r
        }
        for i in 0..n {
            for j in i + 1..n {
                if pts[i].distance(pts[j]).get::<meter>() <= 0.03 + 1e-12 {
                    let (a, b) = (find(&mut parent, i), find(&mut parent, j));
                    parent[a] = b;
                }
            }
        }
        let root = find(&mut parent, 0);
        if (0..n).any(|i| find(&mut parent, i) != root) {
            ctx.violation("cluster not connected under the 3 cm single-linkage relation", format!("{} points", n), inp());
            return;
        }
        ctx.count("clusters checked (size, connectivity)");
    }
    let has_dups = a.windows(2).any(|w| w[0] == w[1]);
    if !res.clusters.is_empty() || (has_dups && !res.remainder.is_empty()) {
        let mut d = Digest::new();
        for k in &a {
            d.u64(k.0);
            d.u64(k.1);
            d.u64(k.2);
        }
        ctx.nontrivial(d.0);
    }
    if has_dups {
        ctx.count("point sets with duplicated points conserved");
    }
    ctx.count("point sets conserved");
}

pub fn check_vertex_partition(ctx: &mut Ctx, input: &[Track], r: &VertexingResult, what: &str) {
    let k = |t: &Track| {
        let mut v: Vec<u64> = vh::helix_params(t).iter().map(|x| x.to_bits()).collect();
        v.push(t.t_inner().to_bits());
        v.push(t.t_outer().to_bits());
        v
    };
    let mut a: Vec<_> = input.iter().map(k).collect();
    a.sort();
    let mut b: Vec<_> = r.remainder.iter().map(k).collect();
    if let Some(v) = &r.primary {
        b.extend(v.tracks.iter().map(|(t, _)| k(t)));
        if v.tracks.len() < 2 {
            ctx.violation("primary vertex reported with fewer than two tracks", format!("{}: {} track(s)", what, v.tracks.len()), json!({"n_in": input.len()}));
        }
    }
    for s in &r.secondaries {
        b.extend(s.tracks.iter().map(|(t, _)| k(t)));
    }
    b.sort();
    if a != b {
        ctx.violation("vertex finding does not partition its input tracks", format!("{}: {} in, {} out (primary {:?}, remainder {})", what, a.len(), b.len(), r.primary.as_ref().map(|v| v.tracks.len()), r.remainder.len()), json!({"helices": input.iter().map(|t| vh::helix_params(t)).collect::<Vec<_>>()}));
    } else {
        ctx.count("track lists partitioned correctly");
    }
}

fn run(ctx: &mut Ctx) {
    let n = ctx.tier.pick(800, 30_000);
    ctx.cases("pointsets", n, |ctx, i, rng| {
        let m = match i % 12 {
            0 => 0,
            1 => 1 + rng.usize(12),
            2 => 1500 + rng.usize(501),
            _ => rng.usize(500),
        };
        let pts = point_set(rng, m);
        ctx.eval();
        let v = pts.clone();
        if i == 3 {
            ctx.sample(json!({"kind": "point multiset", "n_points": pts.len(), "first_points_r_phi_z": pts.iter().take(3).map(|p| { let (r, f, z) = rpz(p); json!([r, f, z]) }).collect::<Vec<_>>()}));
        }
        match guard(move || cluster_spacepoints(v)) {
            Err(p) => ctx.panic_violation("cluster_spacepoints", &p, json!({"points_r_phi_z_bits": super::c14::describe_points(&pts)})),
            Ok(res) => {
                ctx.count_n("clusters found", res.clusters.len() as u64);
                if res.clusters.len() >= 2 {
                    ctx.count("point sets with >= 2 clusters");
                }
                check_clustering(ctx, &pts, &res);
            }
        }
    });
    // ---- pieces of 7..12 hits (a cluster only together) separated by holes of 3 cm +- 1e-10..1e-6 m, at |z| up to 1.1 m
    // and with a small transverse offset: whether two hits are linked must be decided on the full-precision distance
    let n = ctx.tier.pick(1500, 60_000);
    ctx.cases("threshold-gaps", n, |ctx, i, rng| {
        let (r, phi) = (rng.range(0.11, 0.19), rng.range(-PI, PI));
        let npieces = 2 + rng.usize(2);
        // one case in three is compact: pieces a few mm long and a hole of 3.01..5.4 cm, so that everything lies within
        // 3 cm of the common centroid although the pieces are not linked
        let compact = i % 3 == 2;
        let mut z = if i % 2 == 0 { rng.range(0.6, 0.95) } else { rng.range(-1.1, 0.5) };
        let mut pts: Vec<SpacePoint> = Vec::new();
        let mut cur_phi = phi;
        for piece in 0..npieces {
            let np = 7 + rng.usize(6);
            for k in 0..np {
                if k > 0 {
                    z += if compact { rng.range(0.0002, 0.0008) } else { rng.range(0.003, 0.012) };
                }
                pts.push(sp(r, cur_phi, z));
            }
            if piece + 1 < npieces {
                let delta = *rng.pick(&[1e-10, 1e-9, 5e-9, 2e-8, 5e-8, 1e-7, 1e-6]) * if rng.chance(0.3) { -1.0 } else { 1.0 };
                let want = if compact { rng.range(0.0301, if npieces == 2 { 0.054 } else { 0.04 }) } else { 0.03 + delta };
                // next piece starts `want` away: straight up, or with a transverse step of up to 2 cm
                let dphi = if rng.bool() { 0.0 } else { rng.range(0.0, 0.02) / r };
                let chord = 2.0 * r * (dphi / 2.0).sin();
                z += (want * want - chord * chord).max(0.0).sqrt();
                cur_phi += dphi;
            }
        }
        if z.abs() > 1.25 {
            return;
        }
        if rng.bool() {
            rng.shuffle(&mut pts);
        }
        ctx.eval();
        let v = pts.clone();
        match guard(move || cluster_spacepoints(v)) {
            Err(p) => ctx.panic_violation("cluster_spacepoints", &p, json!({"points_r_phi_z_bits": super::c14::describe_points(&pts)})),
            Ok(res) => {
                ctx.count("point sets with holes next to the 3 cm threshold clustered");
                ctx.count_n("clusters found", res.clusters.len() as u64);
                check_clustering(ctx, &pts, &res);
            }
        }
    });
    // ---- 60..90 short, well separated prongs of 13..15 hits each (a call that finds more than 64 clusters), plus points
    // inside the inner cathode radius and beyond the wires
    ctx.cases("many-prongs", ctx.tier.pick(6, 60), |ctx, i, rng| {
        let nprongs = 58 + rng.usize(15);
        let mut pts: Vec<SpacePoint> = Vec::new();
        let a0 = rng.range(-PI, PI);
        for k in 0..nprongs {
            // prong k: 13..15 hits 4 mm apart on a circle of radius 20 cm through the beamline (one Hough bin), all at one
            // z; consecutive prongs are 3.2 cm apart in z and turned against each other, so they do not link
            let alpha = a0 + 2.0 * PI * k as f64 / nprongs as f64;
            let z = -1.05 + 0.032 * k as f64;
            for j in 0..13 + (k + i as usize) % 3 {
                let r = 0.113 + 0.004 * j as f64;
                pts.push(sp(r, alpha + (r / 0.40).acos(), z));
            }
        }
        if i % 2 == 0 {
            for _ in 0..10 {
                pts.push(sp(*rng.pick(&[0.05, 0.08, 0.10, 0.109, 0.195, 0.24]), rng.range(-PI, PI), rng.range(-1.2, 1.2)));
            }
        }
        rng.shuffle(&mut pts);
        ctx.eval();
        let v = pts.clone();
        match guard(move || cluster_spacepoints(v)) {
            Err(p) => ctx.panic_violation("cluster_spacepoints", &p, json!({"n_points": pts.len()})),
            Ok(res) => {
                ctx.observe_max("most clusters found in one call", res.clusters.len() as f64);
                if res.clusters.len() > 64 {
                    ctx.count("calls that found more than 64 clusters");
                }
                check_clustering(ctx, &pts, &res);
            }
        }
    });
    let n = ctx.tier.pick(600, 20_000);
    ctx.cases("tracklists", n, |ctx, i, rng| {
        let k = rng.usize(9);
        let pool = if i % 3 == 0 { super::c14::fitted_tracks(rng, 4) } else { Vec::new() };
        let z = rng.range(-1.0, 1.0);
        let mut ts: Vec<Track> = Vec::new();
        for j in 0..k {
            if !pool.is_empty() && rng.chance(0.6) {
                ts.push(pool[rng.usize(pool.len())].0);
            } else if j > 0 && rng.chance(0.2) {
                let t = ts[rng.usize(ts.len())];
                ts.push(t); // duplicate track
            } else if j > 0 && rng.chance(0.35) {
                // another piece of the trajectory of a track already in the list: bit-identical helix, other t range
                // (a stub below the length cut, or a second long piece), listed before or after it
                let src = ts[rng.usize(ts.len())];
                let hp = vh::helix_params(&src);
                let rad = hp[3].abs().max(1e-3);
                let t0 = src.t_outer() + rng.range(0.0, 0.3) * if rng.bool() { 1.0 } else { -1.0 };
                let len = if rng.bool() { rng.range(0.0, 0.034) } else { rng.range(0.04, 0.2) };
                let piece = vh::track_from_helix(hp, t0, t0 + len / rad * if rng.bool() { 1.0 } else { -1.0 });
                let at = if rng.bool() { 0 } else { rng.usize(ts.len() + 1) };
                ts.insert(at, piece);
                ctx.count("track lists with two pieces of one trajectory");
            } else {
                let zz = if rng.bool() { z } else { rng.range(-1.0, 1.0) };
                let pitch = rng.range(-1.5, 1.5);
                ts.push(super::c14::synthetic_track(rng, zz, pitch));
            }
        }
        let mut d = Digest::new();
        for t in &ts {
            for x in vh::helix_params(t) {
                d.f64(x);
            }
        }
        if k > 0 {
            ctx.nontrivial(d.0);
        }
        super::c14::judge_vertices(ctx, &ts, "track list");
    });
    ctx.require("point sets conserved", 100);
    ctx.require("clusters checked (size, connectivity)", 50);
    ctx.require("track lists partitioned correctly", 100);
    ctx.require("track sets that produced a primary vertex", 10);
}
