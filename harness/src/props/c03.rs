//! C03 – PWB chunks are integrity-checked: differential reference codec + corruption campaign.
use crate::core::*;
use crate::enc;
use crate::refs::*;
use alpha_g_detector::padwing::Chunk;
use serde_json::json;

pub fn prop() -> Prop {
    Prop {
        id: "C03",
        level: "fault_enumeration",
        rule: "chunks over payload lengths {1..64, 255..257, 1399, 1400, 4096, 65532..65535, random}, all 71 boards, every chip/flags byte, declared length off by +-1..4, non-zero padding, CRCs over wrong ranges; library vs reference decision + fields + re-encoding + header_crc32c()/payload_crc32c(). For each accepted chunk: every single-bit flip, bursts of 2..32 bits at every bit offset (short chunks) or at header/tail + sampled offsets (long chunks), sampled 2- and 3-bit flips. Non-trivial = distinct (accepted chunk, corruption) pairs actually decoded + distinct near-valid chunks. Also: all-ones / alternating pattern bursts of 8..32 bits at every byte offset; plain and byte-swapped CRC words; zero words appended with consistent CRC; padding patterns that cancel under xor; chunks whose correct stored CRC words are forged to 0, 0xFFFFFFFF, 1, ... (full campaign on each); device ids mixed from two known boards; alignment independence. Round 4: every declared length 0..=65535 against bodies of 8..65 536 bytes ending in 0..260 zero bytes (header CRC consistent); header fields at constants harvested from the library sources jointly with one more header bit / byte changed. Round 5: first-decode probes (each fresh shard process starts with a different near-valid padded chunk). Round 6: alignment bytes left out (fully / partly) with a consistent CRC word, for every board and both flag values; every slice length 24..=2100 and sampled lengths up to 65 564 with 15 wrong declared lengths each. Round 10: slices longer than any legitimate chunk (body 65 537..131 080 bytes) with a short declared payload (0..9 and the 16-bit alias of the body length +-5) followed by zero bytes only, payload CRC over the declared bytes / over the whole body.",
        assumptions: &["bitwise CRC-32C (reflected poly 0x82F63B78) verified against the test vector 0xE3069283 at start-up", "CRC-32C detects all 1-3 bit errors up to 64 KiB and all bursts <= 32 bits, so any accepted corruption is a genuine violation"],
        profiles: both,
        shards: shards16,
        no_progress_cpu_s: Some(60),
        run,
        finalize: None,
    }
}

fn differential(ctx: &mut Ctx, b: &[u8], what: &str) -> bool {
    ctx.eval();
    let r = chunk_ref(b);
    let l = match guard(|| Chunk::try_from(b).ok()) {
        Ok(l) => l,
        Err(p) => {
            ctx.panic_violation("Chunk::try_from", &p, json!({"bytes": hex(b)}));
            return false;
        }
    };
    if b.len() < 5000 {
        let m = Misaligned::new(b);
        let same = match (guard(|| Chunk::try_from(m.slice()).ok()), &l) {
            (Ok(Some(a)), Some(b2)) => format!("{:?}", a) == format!("{:?}", b2),
            (Ok(None), None) => true,
            _ => false,
        };
        if !same {
            ctx.violation("decoding depends on the alignment of the input slice", what.to_string(), json!({"bytes": hex(b)}));
            return false;
        }
    }
    match (&l, &r) {
        (Some(d), Some(r)) => {
            ctx.count("accepted by both");
            let f = chunk_lib_fields(d);
            if &f != r {
                ctx.violation("chunk accessor differs", format!("{} lib {:?} ref {:?}", what, f.chunk_id, r.chunk_id), json!({"bytes": hex(b)}));
            } else if chunk_encode(&f) != b {
                ctx.violation("chunk re-encoding differs", what.to_string(), json!({"bytes": hex(b)}));
            } else if d.header_crc32c().to_le_bytes() != b[16..20] || d.payload_crc32c().to_le_bytes() != b[b.len() - 4..] {
                ctx.violation("recomputed crc accessor differs from stored word", what.to_string(), json!({"bytes": hex(b)}));
            }
            true
        }
        (None, None) => {
            ctx.count("rejected by both");
            false
        }
        (Some(_), None) => {
            ctx.violation("ill-formed chunk accepted", format!("{} len={}", what, b.len()), json!({"bytes": hex(b)}));
            false
        }
        (None, Some(_)) => {
            ctx.violation("well-formed chunk rejected", format!("{} len={}", what, b.len()), json!({"bytes": hex(b)}));
            false
        }
    }
}

/// accept/reject and decoded fields against the reference only (for the very large enumerations)
fn light(ctx: &mut Ctx, b: &[u8], what: &str) {
    ctx.eval();
    let r = chunk_ref(b);
    match guard(|| Chunk::try_from(b).ok().map(|d| chunk_lib_fields(&d))) {
        Err(p) => ctx.panic_violation("Chunk::try_from", &p, json!({"bytes": hex_short(b)})),
        Ok(None) if r.is_some() => ctx.violation("well-formed chunk rejected", format!("{} len={}", what, b.len()), json!({"bytes": hex_short(b)})),
        Ok(Some(_)) if r.is_none() => ctx.violation("ill-formed chunk accepted", format!("{} len={}", what, b.len()), json!({"bytes": hex_short(b)})),
        Ok(Some(f)) => {
            if Some(&f) != r.as_ref() {
                ctx.violation("chunk accessor differs", what.to_string(), json!({"bytes": hex_short(b)}));
            } else if chunk_encode(&f) != b {
                ctx.violation("chunk re-encoding differs", what.to_string(), json!({"bytes": hex_short(b)}));
            }
            ctx.count("accepted by both (sweeps)");
        }
        Ok(None) => {}
    }
}

fn corrupted(ctx: &mut Ctx, orig: &[u8], x: &[u8], kind: &str, desc: impl Fn() -> String) {
    ctx.eval();
    ctx.count(kind);
    let mut d = Digest::new();
    d.bytes(x);
    ctx.nontrivial(d.0);
    match guard(|| Chunk::try_from(x).is_ok()) {
        Ok(false) => {}
        Ok(true) => ctx.violation("corrupted chunk accepted", format!("{} {}", kind, desc()), json!({"original": hex(orig), "corrupted": hex(x)})),
        Err(p) => ctx.panic_violation("Chunk::try_from", &p, json!({"bytes": hex(x)})),
    }
}

fn rng_board(rng: &mut Rng) -> [u8; 6] {
    rng.pick(&PWB_BOARDS).1
}

fn flip(x: &mut [u8], bit: usize) {
    x[bit / 8] ^= 1 << (bit % 8);
}

fn run(ctx: &mut Ctx) {
    assert_eq!(enc::crc32c(b"123456789"), 0xE3069283, "CRC-32C self-test");
    for t in [0u32, 0xFFFF_FFFF, 0x1234_5678] {
        let s = enc::crc32c_forge_suffix(b"forge", t);
        assert_eq!(enc::crc32c(&[&b"forge"[..], &s[..]].concat()), t, "CRC forging self-test");
        let m = enc::crc32c_forge_middle(b"head", b"tail-bytes", t);
        assert_eq!(enc::crc32c(&[&b"head"[..], &m[..], &b"tail-bytes"[..]].concat()), t, "CRC middle forging self-test");
    }
    let thorough = !ctx.quick();
    // ---- what a process decodes FIRST must not matter (state latched by the first call): every shard is a fresh
    // process and starts with a different near-valid padded chunk, then goes on with the common workload
    {
        let which = ctx.shard % 16;
        let mut rng = ctx.rng_for("first-decode", which as u64);
        let board = rng_board(&mut rng);
        let c = enc::Chunk { device_id: pwb_device_id(&board), packet_sequence: 1, channel_sequence: 2, channel_id: 1, flags: (which % 2) as u8, chunk_id: 0, payload: rng.bytes(5).iter().map(|b| b | 1).collect() };
        let mut b = c.encode();
        let n = b.len();
        let fix_h = |b: &mut Vec<u8>| {
            let h = !enc::crc32c(&b[..16]);
            b[16..20].copy_from_slice(&h.to_le_bytes());
        };
        let fix_p = |b: &mut Vec<u8>| {
            let n = b.len();
            let p = !enc::crc32c(&b[20..n - 4]);
            b[n - 4..].copy_from_slice(&p.to_le_bytes());
        };
        match which {
            0 => {}
            1 => {
                let p = !enc::crc32c(&b[20..25]);
                b[n - 4..].copy_from_slice(&p.to_le_bytes());
            }
            2 => {
                b[26] = 0x80;
                fix_p(&mut b);
            }
            3 => {
                let p = enc::crc32c(&b[20..n - 4]);
                b[n - 4..].copy_from_slice(&p.to_le_bytes());
            }
            4 => {
                let h = enc::crc32c(&b[..16]);
                b[16..20].copy_from_slice(&h.to_le_bytes());
            }
            5 => {
                b[14] = 6;
                fix_h(&mut b);
            }
            6 => {
                b[14] = 1;
                fix_h(&mut b);
            }
            7 => {
                b[11] = 2;
                fix_h(&mut b);
            }
            8 => {
                b[10] = 4;
                fix_h(&mut b);
            }
            9 => {
                b[0] ^= 1;
                fix_h(&mut b);
            }
            10 => {
                let p = (!enc::crc32c(&b[20..n - 4])).to_be_bytes();
                b[n - 4..].copy_from_slice(&p);
            }
            11 => {
                let p = !enc::crc32c(&b[..n - 4]);
                b[n - 4..].copy_from_slice(&p.to_le_bytes());
            }
            12 => {
                b.truncate(n - 4);
                b.extend([0u8; 8]);
                fix_p(&mut b);
            }
            13 => b.truncate(n - 1),
            14 => b[21] ^= 0x10,
            _ => b[5] ^= 0x10,
        }
        ctx.cur_stream = "first-decode".into();
        ctx.cur_case = which as u64;
        differential(ctx, &b, "first chunk decoded by this process");
        ctx.count("first-decode probes");
    }
    // ---- well-formed and near-valid chunks
    let mut plens: Vec<usize> = (1..=64).collect();
    plens.extend([255, 256, 257, 1399, 1400, 4095, 4096, 65532, 65533, 65534, 65535]);
    let nl = plens.len() as u64;
    ctx.cases("nearvalid", nl * 71, |ctx, i, rng| {
        let plen = plens[(i % nl) as usize];
        let board = PWB_BOARDS[(i / nl) as usize];
        if plen > 4096 && (i / nl) % 8 != 0 {
            return;
        }
        let c = enc::Chunk { device_id: pwb_device_id(&board.1), packet_sequence: rng.next() as u32, channel_sequence: rng.next() as u16, channel_id: rng.below(4) as u8, flags: rng.below(2) as u8, chunk_id: rng.next() as u16, payload: rng.bytes(plen) };
        let b = c.encode();
        if !differential(ctx, &b, "valid") {
            ctx.violation("valid chunk not accepted", format!("plen {}", plen), json!({"bytes": hex_short(&b)}));
            return;
        }
        if plen > 300 && thorough == false && plen < 65532 {
            return;
        }
        let n = b.len();
        let refix_header = |b: &mut Vec<u8>| {
            let h = !enc::crc32c(&b[..16]);
            b[16..20].copy_from_slice(&h.to_le_bytes());
        };
        let refix_payload = |b: &mut Vec<u8>| {
            let n = b.len();
            let p = !enc::crc32c(&b[20..n - 4]);
            b[n - 4..].copy_from_slice(&p.to_le_bytes());
        };
        // chip / flags bytes, all values, CRC re-fixed
        for v in 0..=255u8 {
            for pos in [10usize, 11] {
                let mut x = b.clone();
                x[pos] = v;
                refix_header(&mut x);
                differential(ctx, &x, "chip/flags");
            }
        }
        // declared length true +- 1..4 with the header CRC re-fixed
        for d in -4i32..=4 {
            let mut x = b.clone();
            let l = (plen as i32 + d).clamp(0, 65535) as u16;
            x[14..16].copy_from_slice(&l.to_le_bytes());
            refix_header(&mut x);
            differential(ctx, &x, "declared length");
        }
        // non-zero padding with payload CRC re-fixed
        for k in 20 + plen..n - 4 {
            let mut x = b.clone();
            x[k] = 1 + rng.below(255) as u8;
            refix_payload(&mut x);
            differential(ctx, &x, "non-zero padding");
        }
        // several padding bytes non-zero at once (patterns that cancel under xor / sum)
        if n - 4 - (20 + plen) >= 2 {
            for pat in [[0xFFu8, 0xFF, 0xFF], [1, 1, 0], [1, 2, 3], [0x80, 0x80, 0], [0, 7, 7], [255, 1, 0]] {
                let mut x = b.clone();
                for (j, k) in (20 + plen..n - 4).enumerate() {
                    x[k] = pat[j];
                }
                if x != b {
                    refix_payload(&mut x);
                    differential(ctx, &x, "non-zero padding (several bytes)");
                }
            }
        }
        // unknown device id (one byte off) with re-fixed CRC
        for k in 0..4 {
            let mut x = b.clone();
            x[k] = x[k].wrapping_add(1);
            refix_header(&mut x);
            differential(ctx, &x, "device id");
        }
        // header CRC computed over a wrong range
        for range in [0..12usize, 0..15, 1..16, 0..20.min(n)] {
            let mut x = b.clone();
            let h = !enc::crc32c(&x[range]);
            x[16..20].copy_from_slice(&h.to_le_bytes());
            differential(ctx, &x, "header crc over wrong range");
        }
        // payload CRC computed over wrong ranges
        for (a, e) in [(20usize, 20 + plen), (16, n - 4), (20, n - 8), (24.min(n - 4), n - 4), (0, n - 4)] {
            if a < e && !(a == 20 && e == n - 4) {
                let mut x = b.clone();
                let p = !enc::crc32c(&x[a..e]);
                x[n - 4..].copy_from_slice(&p.to_le_bytes());
                differential(ctx, &x, "payload crc over wrong range");
            }
        }
        // whole zero words appended with the payload CRC re-fixed (declared length then no longer matches)
        for words in [1usize, 2, 3, 16] {
            let mut x = b[..n - 4].to_vec();
            x.extend(vec![0u8; 4 * words + 4]);
            refix_payload(&mut x);
            differential(ctx, &x, "zero words appended, payload crc consistent");
        }
        // payload CRC stored without inversion / byte-swapped
        let mut x = b.clone();
        let pc = enc::crc32c(&x[20..n - 4]);
        x[n - 4..].copy_from_slice(&pc.to_le_bytes());
        differential(ctx, &x, "payload crc not inverted");
        let mut x = b.clone();
        x[n - 4..].copy_from_slice(&(!pc).to_be_bytes());
        differential(ctx, &x, "payload crc big endian");
        // not inverted / byte-swapped CRC words
        let mut x = b.clone();
        let h = enc::crc32c(&x[..16]);
        x[16..20].copy_from_slice(&h.to_le_bytes());
        differential(ctx, &x, "header crc not inverted");
        let mut x = b.clone();
        let h = (!enc::crc32c(&x[..16])).to_be_bytes();
        x[16..20].copy_from_slice(&h);
        differential(ctx, &x, "header crc big endian");
        // the alignment bytes left out altogether (slice = header + payload + CRC word), the CRC word consistent with what
        // is there; and left out in part
        if plen % 4 != 0 {
            for keep in 0..(4 - plen % 4) {
                for fl in [0u8, 1] {
                    let mut x = b[..20 + plen + keep].to_vec();
                    x[11] = fl;
                    refix_header(&mut x);
                    let p = !enc::crc32c(&x[20..]);
                    x.extend(p.to_le_bytes());
                    differential(ctx, &x, "alignment bytes left out, payload crc consistent");
                }
            }
        }
        // length not a multiple of 4, truncations, extensions
        for cut in 1..=8.min(n) {
            differential(ctx, &b[..n - cut], "truncated");
        }
        for e in 1..=8 {
            let mut x = b.clone();
            x.extend(vec![0u8; e]);
            differential(ctx, &x, "extended");
        }
    });
    // ---- every declared length 0..=65535 against bodies of several sizes, header CRC consistent, body ending in
    // zero bytes so that a wrong split between payload and padding is not masked by the zero-padding rule
    ctx.cases("declared-length-sweep", 16 * 8, |ctx, i, rng| {
        let body = [8usize, 260, 264, 516, 1028, 4100, 65_532, 65_536][(i / 16) as usize];
        let part = i % 16;
        let board = rng_board(rng);
        let mut payload = rng.bytes(body).iter().map(|b| b | 1).collect::<Vec<u8>>();
        let zeros = [0usize, 1, 2, 3, 4, 260][(i % 6) as usize].min(body);
        for k in body - zeros..body {
            payload[k] = 0;
        }
        // body is a multiple of 4, so the encoder adds no padding of its own
        let c = enc::Chunk { device_id: pwb_device_id(&board), packet_sequence: 7, channel_sequence: 8, channel_id: 2, flags: 1, chunk_id: 3, payload };
        let mut b = c.encode();
        if b.len() != 24 + body {
            b.truncate(20);
            b.extend(&c.payload);
            b.extend([0u8; 4]);
        }
        let n = b.len();
        let pc = !enc::crc32c(&b[20..n - 4]);
        b[n - 4..].copy_from_slice(&pc.to_le_bytes());
        for l in (part * 4096)..((part + 1) * 4096) {
            b[14..16].copy_from_slice(&(l as u16).to_le_bytes());
            let h = !enc::crc32c(&b[..16]);
            b[16..20].copy_from_slice(&h.to_le_bytes());
            light(ctx, &b, "declared length sweep");
        }
        ctx.count_n("declared lengths swept", 4096);
    });
    // ---- slices longer than any legitimate chunk (body 65 537..131 080 bytes): a short declared payload followed by
    // zero bytes only, both CRC words consistent (payload CRC over the declared bytes / over the whole body): the
    // declared length is a 16-bit field, the slice length is not, so width-truncated comparisons alias here (round 10)
    ctx.cases("overlong-zero-tail", 20, |ctx, i, rng| {
        let body = [65_537usize, 65_538, 65_539, 65_540, 65_541, 65_543, 65_544, 65_548, 65_600, 65_792, 66_000, 70_000, 98_304, 131_068, 131_071, 131_072, 131_073, 131_075, 131_076, 131_080][i as usize];
        let board = rng_board(rng);
        let alias = body & 0xFFFF;
        let mut decl: Vec<usize> = (0..=9).collect();
        decl.extend((alias.saturating_sub(5)..=alias + 5).filter(|d| *d <= 65_535));
        decl.extend([255, 256, 65_532, 65_533, 65_534, 65_535]);
        for d in decl {
            for over_all in [false, true] {
                let mut b: Vec<u8> = Vec::with_capacity(24 + body);
                b.extend(pwb_device_id(&board).to_le_bytes());
                b.extend(7u32.to_le_bytes());
                b.extend(8u16.to_le_bytes());
                b.push(rng.below(4) as u8);
                b.push(rng.below(2) as u8);
                b.extend(3u16.to_le_bytes());
                b.extend((d as u16).to_le_bytes());
                let h = !enc::crc32c(&b[..16]);
                b.extend(h.to_le_bytes());
                b.extend(rng.bytes(d.min(body)).iter().map(|x| x | 1));
                b.resize(20 + body, 0);
                let pc = if over_all { !enc::crc32c(&b[20..]) } else { !enc::crc32c(&b[20..20 + d.min(body)]) };
                b.extend(pc.to_le_bytes());
                light(ctx, &b, "overlong slice, short declared payload, zero tail");
                ctx.count("overlong zero-tail slices");
            }
        }
    });
    // ---- every slice length 24..=2100 (and sampled lengths up to 65 564) with wrong declared lengths of every residue,
    // both CRC words consistent: no particular size of a datagram is special
    ctx.cases("slice-length-sweep", 64, |ctx, part, rng| {
        let board = rng_board(rng);
        let lens: Vec<usize> = (24..=2100usize).chain((0..200).map(|k| 2100 + (k * 317) % 63_464)).collect();
        for (k, &l) in lens.iter().enumerate() {
            if k as u64 % 64 != part {
                continue;
            }
            let body = l - 24;
            let mut b: Vec<u8> = Vec::with_capacity(l);
            b.extend(pwb_device_id(&board).to_le_bytes());
            b.extend(7u32.to_le_bytes());
            b.extend(8u16.to_le_bytes());
            b.push(rng.below(4) as u8);
            b.push(rng.below(2) as u8);
            b.extend(3u16.to_le_bytes());
            b.extend(0u16.to_le_bytes());
            b.extend([0u8; 4]);
            b.extend(rng.bytes(body).iter().map(|x| x | 1));
            b.extend([0u8; 4]);
            let pc = !enc::crc32c(&b[20..l - 4]);
            b[l - 4..].copy_from_slice(&pc.to_le_bytes());
            let cands: Vec<usize> = vec![body, body.saturating_sub(1), body.saturating_sub(3), body.saturating_sub(4), body.saturating_sub(8), body + 1, body + 4, 0, 4, body / 2, (body / 8) * 4, 65532, 65535, body.saturating_sub(256), body + 256];
            for d in cands {
                if d > 65535 {
                    continue;
                }
                b[14..16].copy_from_slice(&(d as u16).to_le_bytes());
                let h = !enc::crc32c(&b[..16]);
                b[16..20].copy_from_slice(&h.to_le_bytes());
                light(ctx, &b, "slice length sweep");
                ctx.count("slice lengths x declared lengths swept");
            }
        }
    });
    // ---- one header field at a constant from the library's sources and one more header bit / byte changed, with
    // the header CRC consistent
    let dict = super::source_dictionary("detector/src");
    ctx.cases("dictionary-pairs", 16, |ctx, off, rng| {
        let board = rng_board(rng);
        let c = enc::Chunk { device_id: pwb_device_id(&board), packet_sequence: 7, channel_sequence: 8, channel_id: 1, flags: 0, chunk_id: 3, payload: rng.bytes(11) };
        let seed = c.encode();
        let n = super::dict_pairs(&seed, off as usize, 0..16, &dict, |x| {
            let h = !enc::crc32c(&x[..16]);
            x[16..20].copy_from_slice(&h.to_le_bytes());
        }, |b| light(ctx, b, "header field at a source constant + one more change"));
        ctx.count_n("inputs with a field at a source constant", n);
    });
    // ---- corruption campaign on accepted chunks
    let camp: Vec<usize> = if thorough { vec![1, 2, 3, 4, 5, 6, 7, 8, 9, 13, 16, 31, 32, 33, 63, 64, 65, 100, 255, 256, 257, 1000, 1400, 4096, 16384, 65532, 65535] } else { vec![1, 2, 3, 4, 5, 8, 31, 32, 64, 255, 1400, 65535] };
    let reps = ctx.tier.pick(2, 8);
    let total = camp.len() as u64 * reps;
    ctx.cases("corrupt", total, |ctx, i, rng| {
        let plen = camp[(i / reps) as usize];
        let board = rng.pick(&PWB_BOARDS).1;
        let c = enc::Chunk { device_id: pwb_device_id(&board), packet_sequence: rng.next() as u32, channel_sequence: rng.next() as u16, channel_id: rng.below(4) as u8, flags: rng.below(2) as u8, chunk_id: rng.next() as u16, payload: rng.bytes(plen) };
        let b = c.encode();
        if !differential(ctx, &b, "valid") {
            ctx.violation("valid chunk not accepted", format!("plen {}", plen), json!({"bytes": hex_short(&b)}));
            return;
        }
        ctx.count("accepted chunks put through the corruption campaign");
        if i % reps == 0 {
            ctx.sample(json!({"kind": "accepted chunk", "payload_len": plen, "bytes": hex_short(&b), "corruptions": "all single-bit flips, bursts 2..32 bits, sampled 2/3-bit flips"}));
        }
        let nbits = b.len() * 8;
        let exhaustive_single = plen <= 4096 || (thorough && i % reps == 0);
        let singles: Vec<usize> = if exhaustive_single { (0..nbits).collect() } else { (0..nbits).step_by(61).chain(0..320).chain(nbits - 320..nbits).collect() };
        for bit in singles {
            let mut x = b.clone();
            flip(&mut x, bit);
            corrupted(ctx, &b, &x, "single-bit flips decoded", || format!("bit {} plen {}", bit, plen));
        }
        // pairs and triples, incl. pairs straddling the two CRC domains and the length field
        let nmulti = ctx.tier.pick(4_000, 40_000);
        for j in 0..nmulti {
            let k = 2 + (j % 2) as usize;
            let mut x = b.clone();
            for t in 0..k {
                let bit = match (j % 7, t) {
                    (0, 0) => rng.usize(160),                   // header
                    (0, _) => 160 + rng.usize(nbits - 160),     // payload side
                    (1, 0) => 112 + rng.usize(16),              // length field
                    (2, 0) => nbits - 32 + rng.usize(32),       // payload crc
                    (3, 0) => 128 + rng.usize(32),              // header crc
                    _ => rng.usize(nbits),
                };
                flip(&mut x, bit);
            }
            if x == b {
                continue;
            }
            corrupted(ctx, &b, &x, if k == 2 { "2-bit flips decoded" } else { "3-bit flips decoded" }, || format!("plen {}", plen));
        }
        // pattern bursts (all ones, alternating) of 8/16/24/32 bits at every byte-aligned offset and at every bit
        // offset of the header / CRC / tail regions: e.g. inverting a whole CRC word is one 32-bit burst
        let pat_step = if plen <= 4096 || (thorough && i % reps == 0) { 8 } else { 8 * 211 };
        let pat_offs: Vec<usize> = (0..nbits).step_by(pat_step).chain(0..224.min(nbits)).chain(nbits.saturating_sub(72)..nbits).collect();
        for off in pat_offs {
            for (l, pat) in [(8usize, 0xFFu32), (16, 0xFFFF), (24, 0xFF_FFFF), (32, 0xFFFF_FFFF), (32, 0xAAAA_AAAB), (32, 0xD555_5555), (31, 0x7FFF_FFFF)] {
                if off + l > nbits {
                    continue;
                }
                let mut x = b.clone();
                for k in 0..l {
                    if pat >> k & 1 == 1 {
                        flip(&mut x, off + k);
                    }
                }
                corrupted(ctx, &b, &x, "pattern bursts (all-ones / alternating) decoded", || format!("off {} len {} pattern {:#x} plen {}", off, l, pat, plen));
            }
        }
        // bursts: first and last flipped bit at most 32 bits apart
        let offs: Vec<usize> = if plen <= 64 || (thorough && plen <= 257) { (0..nbits).collect() } else { (0..420).chain((0..ctx.tier.pick(300, 3000)).map(|_| rng.usize(nbits))).chain(nbits - 420..nbits).collect() };
        let per = ctx.tier.pick(6, 12);
        for off in offs {
            for j in 0..per {
                let l = if j < 3 { [2usize, 31, 32][j] } else { 2 + rng.usize(31) };
                if off + l > nbits {
                    continue;
                }
                let mut pat = rng.next() as u32 | 1 | (1u32 << (l - 1));
                if l < 32 {
                    pat &= (1u32 << l) - 1;
                }
                let mut x = b.clone();
                for k in 0..l {
                    if pat >> k & 1 == 1 {
                        flip(&mut x, off + k);
                    }
                }
                corrupted(ctx, &b, &x, "bursts (2..32 bits) decoded", || format!("off {} len {} plen {}", off, l, plen));
            }
        }
    });
    // ---- chunks whose *correct* stored CRC words have special values (0x00000000, 0xFFFFFFFF, ...): a sentinel in
    // the comparison code would exempt them. Full single-bit / pattern campaign on each.
    ctx.cases("special-crc-values", 24, |ctx, i, rng| {
        let target_word = [0u32, 0xFFFF_FFFF, 1, 0x8000_0000, 0x0000_FFFF, 0xFFFF_0000][(i % 6) as usize];
        let which = (i / 6) % 2; // 0: payload word, 1: header word
        let plen = [4usize, 8, 32, 708][(i / 12) as usize % 4 + if i % 2 == 0 { 0 } else { 0 }];
        let board = rng.pick(&PWB_BOARDS).1;
        let mut c = enc::Chunk { device_id: pwb_device_id(&board), packet_sequence: rng.next() as u32, channel_sequence: rng.next() as u16, channel_id: rng.below(4) as u8, flags: 1, chunk_id: 0, payload: rng.bytes(plen) };
        if which == 0 {
            // payload (multiple of 4, no padding) ending in 4 forged bytes: stored word = !crc = target_word
            let n = c.payload.len();
            let suffix = enc::crc32c_forge_suffix(&c.payload[..n - 4], !target_word);
            c.payload[n - 4..].copy_from_slice(&suffix);
        } else {
            // bytes 4..8 (packet_sequence) are free: forge them so that the stored header word = !crc(header) = target
            let h = c.encode()[..16].to_vec();
            let m = enc::crc32c_forge_middle(&h[..4], &h[8..16], !target_word);
            c.packet_sequence = u32::from_le_bytes(m);
        }
        let b = c.encode();
        if !differential(ctx, &b, "special stored crc value") {
            ctx.violation("valid chunk not accepted", format!("stored crc word target {:#x}", target_word), json!({"bytes": hex(&b)}));
            return;
        }
        let n = b.len();
        let stored = if which == 0 { u32::from_le_bytes(b[n - 4..].try_into().unwrap()) } else { u32::from_le_bytes(b[16..20].try_into().unwrap()) };
        ctx.count(&format!("chunks with a special stored crc word ({})", if stored == target_word { "exact" } else { "low 16 bits" }));
        let nbits = n * 8;
        for bit in 0..nbits {
            let mut x = b.clone();
            flip(&mut x, bit);
            corrupted(ctx, &b, &x, "single-bit flips decoded", || format!("bit {} (stored crc word {:#010x})", bit, stored));
        }
        for off in (0..nbits).step_by(8) {
            for (l, pat) in [(8usize, 0xFFu32), (16, 0xFFFF), (32, 0xFFFF_FFFF), (32, 0x8000_0001)] {
                if off + l <= nbits {
                    let mut x = b.clone();
                    for k in 0..l {
                        if pat >> k & 1 == 1 {
                            flip(&mut x, off + k);
                        }
                    }
                    corrupted(ctx, &b, &x, "pattern bursts (all-ones / alternating) decoded", || format!("off {} len {}", off, l));
                }
            }
        }
    });
    // ---- device ids assembled from the halves / bytes of two different known boards (CRC re-fixed)
    ctx.cases("mixed-device-ids", 71, |ctx, i, rng| {
        let a = PWB_BOARDS[i as usize].1;
        for (_, b2) in PWB_BOARDS.iter() {
            if *b2 == a {
                continue;
            }
            for mask in [0x0000_FFFFu32, 0xFFFF_0000, 0x00FF_00FF, 0xFF00_FF00, 0x0000_00FF, 0xFFFF_FF00] {
                let dev = (pwb_device_id(&a) & mask) | (pwb_device_id(b2) & !mask);
                let c = enc::Chunk { device_id: dev, packet_sequence: 1, channel_sequence: 2, channel_id: 1, flags: 0, chunk_id: 3, payload: rng.bytes(5) };
                differential(ctx, &c.encode(), "device id mixed from two boards");
            }
        }
    });
    ctx.require("accepted chunks put through the corruption campaign", 1);
    ctx.require("single-bit flips decoded", 1000);
}
