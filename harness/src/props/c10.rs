//! C10 – event assembly puts each waveform on its detector element, calibrated, or fails.
use crate::calib::{self, Calib, Need};
use crate::core::*;
use crate::enc::{self, Adc, Trg};
use crate::event;
use crate::maps::{self, Inv};
use alpha_g_physics::{verif_hooks as vh, MainEvent};
use serde_json::json;
use std::collections::BTreeMap;

pub fn prop() -> Prop {
    Prop {
        id: "C10",
        level: "exploration",
        rule: "events of well-formed packets on random subsets of wires / pads with random raw waveforms (lengths incl. <= delay, suppressed 16-byte packets, i16 extremes), every (board, channel) and (board, chip, pad channel) covered in the thorough tier, runs {simulation, 9277, 10417, 10418, 11083, 11084, 12000, random >= 9277} and unavailable runs {0, 2940, 2941, 4417, 6999, 7025, 9276}; after Ok the private signal arrays (hook) are compared slot by slot, bit by bit, with arrays computed from the public maps and calibration files parsed by the harness; missing calibration with post-delay samples must fail, without post-delay samples is a don't-care. Each single inconsistency injected into a valid event must fail: renamed bank (other board / channel), swapped payloads, duplicated wire bank (same / different content, both orders, sample-less), duplicated PWB chunk, second TRG, no TRG, BV channel in a C bank, board not installed for the run, malformed wire / pad / TRG payload, unknown bank; BV / TRBA / MCVX garbage must be ignored. Non-trivial = distinct built events x occupied slots compared (hash of event) + distinct injected inconsistencies. Also: every ordered pair of {long, short, suppressed} wire banks with one name; events without any sample at 16 run numbers (must build); the same banks under run sequences across the pad-map epochs (history independence). Round 4: every pad of the detector (32 x 576) under the simulation and under real runs on either side of each calibration epoch (9500, 10418, 11500). Round 5: pads of a chip sent twice (second message under another chip label; long and without post-delay samples); per-packet PWB header metadata varied; events built as the first call of a new thread. Round 6: a packet of another board inside correctly named chunks; unknown names next to every family of known names; TRG counters beyond 2^28; events of 8 run numbers built on 8 threads at once. Round 7: wire banks with every legal combination of the footer keep fields (keep_last at its minimum, anywhere, at its maximum for the sample count); wires of more than 4 096 samples with keep_last beyond 11 bits. Round 8: a second message for a chip with an overlapping but different channel set (a new channel first). Round 9: every reserved bit of the TRG packet, one at a time, inside an otherwise valid event.",
        assumptions: &["TpcWirePosition::try_new / TpcPadPosition::try_new are judged by C08", "calibration epochs transcribed: wires map 2941, baseline 7026, gain 9277/11084, delay 100 sim / 129 from 7000; pads map 4418/10418, baseline & gain 9277/11084, delay 100 sim / 115 from 7000"],
        profiles: release_only,
        shards: shards16,
        no_progress_cpu_s: Some(300),
        run,
        finalize: None,
    }
}

pub type Banks = Vec<(String, Vec<u8>)>;
pub fn build(run: u32, banks: &Banks) -> Result<MainEvent, String> {
    MainEvent::try_from_banks(run, banks.iter().map(|(n, d)| (&n[..], &d[..]))).map_err(|e| {
        let v = format!("{:?}", e);
        v.split(|c: char| !c.is_alphanumeric()).next().unwrap_or("").to_string()
    })
}

struct Ev {
    wires: BTreeMap<usize, Vec<i16>>,
    /// wires sent as 16-byte suppressed packets
    suppressed: Vec<usize>,
    pads: BTreeMap<(usize, usize), Vec<i16>>,
    ts: u32,
}

fn gen_event(rng: &mut Rng, cal: &Calib, force_wire: Option<usize>, force_pad: Option<(usize, usize)>) -> Ev {
    let wd = cal.wire_delay.unwrap_or(129);
    let pd = cal.pad_delay.unwrap_or(115);
    let mut wires = BTreeMap::new();
    let nw = rng.usize(30);
    let pick_len = |rng: &mut Rng| *rng.pick(&[64usize, 65, 100, wd - 1, wd, wd + 1, wd + 2, 300, 697]);
    for _ in 0..nw {
        let l = pick_len(rng).max(64);
        let kind = rng.below(4);
        wires.insert(rng.usize(256), (0..l).map(|i| match kind { 0 => rng.next() as i16, 1 => [i16::MIN, i16::MAX][i % 2], 2 => 3000 + (rng.gauss() * 20.0) as i16, _ => (-((i * 37) as i64)) as i16 }).collect());
    }
    if let Some(w) = force_wire {
        wires.insert(w, (0..wd + 40).map(|_| rng.next() as i16).collect());
    }
    let mut suppressed = Vec::new();
    for _ in 0..rng.usize(4) {
        let w = rng.usize(256);
        if !wires.contains_key(&w) {
            suppressed.push(w);
        }
    }
    suppressed.sort();
    suppressed.dedup();
    let pl = *rng.pick(&[0usize, 1, 100, pd - 1, pd, pd + 1, pd + 2, 300, 511]);
    let mut pads = BTreeMap::new();
    for _ in 0..rng.usize(60) {
        let kind = rng.below(3);
        pads.insert((rng.usize(32), rng.usize(576)), (0..pl).map(|i| match kind { 0 => rng.next() as i16, 1 => [i16::MIN, i16::MAX, -32767][i % 3], _ => 1725 + (rng.gauss() * 10.0) as i16 }).collect());
    }
    if let Some(p) = force_pad {
        let pl = pl.max(pd + 5);
        // all pads of one (board, chip) group must share the length: re-generate the whole map at that length
        let keys: Vec<_> = pads.keys().cloned().chain(std::iter::once(p)).collect();
        pads.clear();
        for k in keys {
            pads.insert(k, (0..pl).map(|_| rng.next() as i16).collect());
        }
    }
    Ev { wires, suppressed, pads, ts: rng.next() as u32 }
}

fn suppressed_bank(inv: &Inv, wire: usize) -> (String, Vec<u8>) {
    let (name, mac, ch) = &inv.wire[wire];
    let digit = std::char::from_digit(*ch as u32, 32).unwrap().to_ascii_uppercase();
    let mut a = Adc::simple(*mac, *ch, vec![]);
    a.suppression = true;
    a.keep_bit = false;
    a.keep_last = 0;
    a.requested_samples = 699;
    (format!("C{}{}", name, digit), a.encode_short())
}

fn banks_of(inv: &Inv, ev: &Ev, rng: &mut Rng) -> Banks {
    let mut banks = Vec::new();
    for (w, s) in &ev.wires {
        // footer keep fields: any legal combination (none of it may matter for the slot)
        banks.push(event::wire_bank_varied(inv, *w, s.clone(), rng));
    }
    for w in &ev.suppressed {
        banks.push(suppressed_bank(inv, *w));
    }
    let cs = *rng.pick(&[100usize, 1400, 65535]);
    if rng.bool() {
        banks.extend(event::pad_banks(inv, &ev.pads, cs));
    } else {
        // per-packet header metadata and chunk sequence numbers differ from packet to packet: none of it may matter
        banks.extend(event::pad_banks_varied(inv, &ev.pads, cs, rng, None));
    }
    // the TRG packet's counters are unrelated to the event: any ordered values, output counter beyond 2^28 included
    if rng.bool() {
        banks.push(event::trg_bank(ev.ts));
    } else {
        let out = *rng.pick(&[0u32, 1, 0x0FFF_FFFF, 0x1000_0000, 0x1234_5678, 0xFFFF_FFF0]);
        let mut t = crate::enc::Trg::simple(ev.ts, out);
        t.pulser = rng.next() as u32;
        t.udp = rng.next() as u32 >> 1;
        banks.push(("ATAT".to_string(), t.encode()));
    }
    // foreign banks that must be recognised and ignored
    if rng.bool() {
        banks.push(("B09A".to_string(), rng.bytes(rng.clone().usize(40))));
        banks.push(("TRBA".to_string(), rng.bytes(17)));
        banks.push(("MCVX".to_string(), rng.bytes(5)));
    }
    rng.shuffle(&mut banks);
    banks
}

fn same(a: &Option<Vec<f64>>, b: &Option<Vec<f64>>) -> bool {
    match (a, b) {
        (None, None) => true,
        (Some(a), Some(b)) => a.len() == b.len() && a.iter().zip(b).all(|(x, y)| x.to_bits() == y.to_bits()),
        _ => false,
    }
}

thread_local! {
    /// build the next events on a brand-new thread each (per-thread state of the library starts from its initial value)
    static FRESH: std::cell::Cell<bool> = const { std::cell::Cell::new(false) };
}

fn check_event(ctx: &mut Ctx, cal: &Calib, ev: &Ev, banks: &Banks) {
    ctx.eval();
    let needs: Vec<Need> = ev.wires.iter().map(|(w, s)| cal.wire_need(*w, s.len())).chain(ev.pads.iter().map(|(k, s)| cal.pad_need(*k, s.len()))).collect();
    let must_err = needs.iter().any(|n| *n == Need::MissingNeeded);
    let dontcare = !must_err && needs.iter().any(|n| *n == Need::MissingDontCare);
    let input = || json!({"run": cal.run, "banks": banks.iter().map(|(n, d)| json!([n, hex_short(d)])).collect::<Vec<_>>()});
    let fresh = FRESH.with(|f| f.get());
    let r = match if fresh { fresh_thread(|| build(cal.run, banks)) } else { guard(|| build(cal.run, banks)) } {
        Ok(r) => r,
        Err(p) => {
            ctx.panic_violation("MainEvent::try_from_banks", &p, input());
            return;
        }
    };
    if fresh {
        ctx.count("events built as the first call of a brand-new thread");
    }
    match r {
        Err(e) => {
            if must_err {
                ctx.count(&format!("run {}: build failed as required ({})", run_label(cal.run), e));
            } else if dontcare {
                ctx.count("build failed on a missing resource for a channel without post-delay samples (accepted, don't-care)");
            } else {
                ctx.violation("consistent event with every resource available does not build", format!("run {}: {}", cal.run, e), input());
            }
        }
        Ok(me) => {
            if must_err {
                ctx.violation("event built although a needed map / calibration is unavailable", format!("run {}", cal.run), input());
                return;
            }
            if me.timestamp() != ev.ts {
                ctx.violation("event timestamp is not the TRG packet's timestamp", format!("{} vs {}", me.timestamp(), ev.ts), input());
                return;
            }
            let ws = vh::wire_signals(&me);
            let mut occupied = 0u64;
            for w in 0..256 {
                let exp = ev.wires.get(&w).and_then(|s| cal.wire_expected(w, s));
                if !same(&ws[w], &exp) {
                    ctx.violation("wire slot differs from (raw - baseline) x gain after the delay", format!("run {} wire {}: got {:?} samples, expected {:?}", cal.run, w, ws[w].as_ref().map(|v| v.len()), exp.as_ref().map(|v| v.len())), input());
                    return;
                }
                occupied += exp.is_some() as u64;
            }
            let ps = vh::pad_signals(&me);
            for c in 0..32 {
                for r in 0..576 {
                    let exp = ev.pads.get(&(c, r)).and_then(|s| cal.pad_expected((c, r), s));
                    if !same(&ps[c][r], &exp) {
                        ctx.violation("pad slot differs from (raw - baseline) x gain after the delay", format!("run {} pad ({}, {}): got {:?} samples, expected {:?}", cal.run, c, r, ps[c][r].as_ref().map(|v| v.len()), exp.as_ref().map(|v| v.len())), input());
                        return;
                    }
                    occupied += exp.is_some() as u64;
                }
            }
            ctx.count(&format!("run {}: events built and all 18688 slots compared", run_label(cal.run)));
            ctx.count_n("occupied slots compared bitwise", occupied);
            if occupied > 0 {
                let mut d = Digest::new();
                d.u64(cal.run as u64);
                for (n, b) in banks {
                    d.bytes(n.as_bytes());
                    d.bytes(b);
                }
                ctx.nontrivial(d.0);
            }
        }
    }
}
fn run_label(run: u32) -> String {
    if run == u32::MAX {
        "simulation".into()
    } else if [9277, 10417, 10418, 11083, 11084, 11500, 12000, 0, 2940, 2941, 4417, 6999, 7025, 9276].contains(&run) {
        run.to_string()
    } else {
        "random >= 9277".into()
    }
}

fn inject(ctx: &mut Ctx, run: u32, name: &str, banks: Banks, must_fail: bool) {
    ctx.eval();
    let input = || json!({"run": run, "injection": name, "banks": banks.iter().map(|(n, d)| json!([n, hex_short(d)])).collect::<Vec<_>>()});
    match guard(|| build(run, &banks)) {
        Err(p) => ctx.panic_violation("MainEvent::try_from_banks", &p, input()),
        Ok(Ok(_)) if must_fail => ctx.violation(&format!("inconsistent event built: {}", name), format!("run {}", run), input()),
        Ok(Err(e)) if !must_fail => ctx.violation(&format!("event that must build failed: {}", name), format!("run {}: {}", run, e), input()),
        Ok(r) => {
            ctx.count(&format!("injection {}: {}", name, if r.is_ok() { "built" } else { "rejected" }));
            let mut d = Digest::new();
            d.bytes(name.as_bytes());
            for (n, b) in &banks {
                d.bytes(n.as_bytes());
                d.bytes(b);
            }
            ctx.nontrivial(d.0);
        }
    }
}

fn run(ctx: &mut Ctx) {
    let good_runs = [u32::MAX, 9277, 10417, 10418, 11083, 11084, 12000];
    let bad_runs = [0u32, 2940, 2941, 4417, 6999, 7025, 9276];
    let thorough = !ctx.quick();
    // calibration and inverse maps are loaded once per run number
    let mut cache: BTreeMap<u32, (Calib, Inv)> = BTreeMap::new();
    let mut get = |run: u32, cache: &mut BTreeMap<u32, (Calib, Inv)>| {
        cache.entry(run).or_insert_with(|| (calib::load(run), maps::inverse(run)));
    };
    for r in good_runs.iter().chain(&bad_runs) {
        get(*r, &mut cache);
    }
    // ---- slot / calibration comparison
    let n = ctx.tier.pick(420, 60_000);
    ctx.cases("events", n, |ctx, i, rng| {
        let run = match i % 10 {
            0..=6 => good_runs[(i % 7) as usize],
            7 => 9277 + rng.below(20000) as u32,
            _ => bad_runs[rng.usize(bad_runs.len())],
        };
        let tmp;
        let (cal, inv) = if let Some(c) = cache.get(&run) {
            c
        } else {
            tmp = (calib::load(run), maps::inverse(run));
            &tmp
        };
        // thorough: walk through every wire and every pad at least once
        let (fw, fp) = if thorough && i % 10 < 7 { (Some((i / 10 % 256) as usize), Some((((i / 10) % 32) as usize, ((i / 10 * 7) % 576) as usize))) } else { (None, None) };
        let ev = gen_event(rng, cal, fw, fp);
        let banks = banks_of(inv, &ev, rng);
        if i == 0 {
            ctx.sample(json!({"kind": "event", "run": run_label(run), "wires": ev.wires.len(), "suppressed_wire_packets": ev.suppressed.len(), "pads": ev.pads.len(), "banks": banks.len(), "bank_names": banks.iter().take(8).map(|b| b.0.clone()).collect::<Vec<_>>()}));
        }
        check_event(ctx, cal, &ev, &banks);
    });
    // every pad (32 columns x 576 rows, one column per case) under every calibration epoch: the simulation and real
    // runs on either side of each documented change of a calibration file
    let all_runs = [u32::MAX, 9500, 10418, 11500];
    let blocks = 32 * all_runs.len() as u64 * if thorough { 4 } else { 1 };
    ctx.cases("all-pads", blocks, |ctx, i, rng| {
        let run = all_runs[((i / 32) % all_runs.len() as u64) as usize];
        get(run, &mut cache);
        let (cal, inv) = cache.get(&run).unwrap();
        let col = (i % 32) as usize;
        let rows: Vec<usize> = (0..576).collect();
        let mut pads = BTreeMap::new();
        let pl = 130 + rng.usize(30);
        for r in rows {
            pads.insert((col, r), (0..pl).map(|_| rng.next() as i16).collect::<Vec<i16>>());
        }
        let mut wires = BTreeMap::new();
        for w in 0..256 {
            if (w + i as usize) % 3 == 0 {
                wires.insert(w, (0..140).map(|_| rng.next() as i16).collect::<Vec<i16>>());
            }
        }
        let ev = Ev { wires, suppressed: vec![], pads, ts: i as u32 };
        let banks = banks_of(inv, &ev, rng);
        FRESH.with(|f| f.set(i % 3 == 1));
        check_event(ctx, cal, &ev, &banks);
        FRESH.with(|f| f.set(false));
    });
    // ---- injected inconsistencies
    let n = ctx.tier.pick(160, 20_000);
    ctx.cases("injections", n, |ctx, i, rng| {
        let run = *rng.pick(&[u32::MAX, 9500, 10418, 11500]);
        get(run, &mut cache);
        let (cal, inv) = cache.get(&run).unwrap();
        // a valid base event whose channels all have calibration and post-delay samples
        let mut wires: BTreeMap<usize, Vec<i16>> = BTreeMap::new();
        while wires.len() < 4 {
            let w = rng.usize(256);
            if cal.wire_need(w, 200) == Need::Available {
                wires.insert(w, (0..200).map(|_| 3000 + (rng.gauss() * 30.0) as i16).collect());
            }
        }
        let mut pads: BTreeMap<(usize, usize), Vec<i16>> = BTreeMap::new();
        while pads.len() < 6 {
            let p = (rng.usize(32), rng.usize(576));
            if cal.pad_need(p, 200) == Need::Available {
                pads.insert(p, (0..200).map(|_| 1725 + (rng.gauss() * 10.0) as i16).collect());
            }
        }
        let ev = Ev { wires: wires.clone(), suppressed: vec![], pads: pads.clone(), ts: 77 };
        let mut base = Vec::new();
        for (w, s) in &wires {
            base.push(event::wire_bank(inv, *w, s.clone()));
        }
        let nwb = base.len();
        base.extend(event::pad_banks(inv, &pads, 300));
        let npb = base.len() - nwb;
        base.push(event::trg_bank(ev.ts));
        inject(ctx, run, "none (valid base event)", base.clone(), false);
        let _ = i;
        // renamed wire bank: other channel / other board
        let wi = rng.usize(nwb);
        let (name, _) = base[wi].clone();
        let other_digit = std::char::from_digit((name.chars().nth(3).unwrap().to_digit(32).unwrap() + 1 + rng.below(30) as u32) % 32, 32).unwrap().to_ascii_uppercase();
        let mut b = base.clone();
        b[wi].0 = format!("{}{}", &name[..3], other_digit);
        inject(ctx, run, "wire bank renamed to another channel", b, true);
        let other_board = enc::A16_MACS.iter().map(|m| m.0).find(|n| *n != &name[1..3]).unwrap();
        let mut b = base.clone();
        b[wi].0 = format!("C{}{}", other_board, &name[3..]);
        inject(ctx, run, "wire bank renamed to another board", b, true);
        // swapped payloads between two wire banks
        let wj = (wi + 1) % nwb;
        let mut b = base.clone();
        let (p1, p2) = (b[wi].1.clone(), b[wj].1.clone());
        b[wi].1 = p2;
        b[wj].1 = p1;
        inject(ctx, run, "payloads of two wire banks swapped", b, true);
        // duplicated wire bank: same content, different content, short/long in both orders, sample-less
        let mut b = base.clone();
        b.push(base[wi].clone());
        rng.shuffle(&mut b);
        inject(ctx, run, "wire bank duplicated (same content)", b, true);
        let wire_idx = *wires.keys().nth(wi).unwrap();
        let delay = cal.wire_delay.unwrap();
        let short = event::wire_bank(inv, wire_idx, vec![3000; 64.max(delay.min(100))]);
        for (nm, first_short) in [("wire bank duplicated: [short (<= delay), long]", true), ("wire bank duplicated: [long, short (<= delay)]", false)] {
            let mut b = base.clone();
            if first_short {
                b.insert(0, short.clone());
            } else {
                b.push(short.clone());
            }
            inject(ctx, run, nm, b, true);
        }
        let mut b = base.clone();
        b.remove(wi);
        b.push(short.clone());
        b.push(short.clone());
        inject(ctx, run, "wire bank duplicated: [short, short] (no post-delay samples)", b, true);
        let sup = suppressed_bank(inv, wire_idx);
        let mut b = base.clone();
        b.remove(wi);
        b.push(sup.clone());
        b.push(sup.clone());
        inject(ctx, run, "wire bank duplicated: two suppressed 16-byte packets", b, true);
        let mut b = base.clone();
        b.insert(0, sup.clone());
        inject(ctx, run, "wire bank duplicated: [suppressed, long]", b, true);
        // every ordered pair of two banks with the same name out of {long, short (<= delay), suppressed 16-byte}
        let long = base[wi].clone();
        let forms = [("long", long.clone()), ("short", short.clone()), ("suppressed", sup.clone())];
        for (n1, f1) in &forms {
            for (n2, f2) in &forms {
                for gap in [false, true] {
                    let mut b = base.clone();
                    b.remove(wi);
                    b.insert(0, f1.clone());
                    if gap {
                        b.push(f2.clone());
                    } else {
                        b.insert(1, f2.clone());
                    }
                    inject(ctx, run, &format!("wire bank duplicated: [{}, {}]", n1, n2), b, true);
                }
            }
        }
        // a single suppressed packet is fine
        let mut b = base.clone();
        b.remove(wi);
        b.push(sup.clone());
        inject(ctx, run, "none (one suppressed 16-byte packet)", b, false);
        // suppressed packet whose channel byte disagrees with the bank name / is a BV channel
        let mut s2 = sup.clone();
        s2.1[5] = 128 + ((s2.1[5] - 128 + 1) % 32);
        let mut b = base.clone();
        b.remove(wi);
        b.push(s2);
        inject(ctx, run, "suppressed packet under a bank name of another channel", b, true);
        let mut s3 = sup.clone();
        s3.1[5] = rng.below(16) as u8;
        let mut b = base.clone();
        b.remove(wi);
        b.push(s3);
        inject(ctx, run, "suppressed packet with a BV channel in a C bank", b, true);
        // BV channel byte in a C bank (full packet)
        let mut b = base.clone();
        let (nm, mac_ch) = (&inv.wire[wire_idx].0, inv.wire[wire_idx].1);
        let mut a = Adc::simple(mac_ch, 0, wires[&wire_idx].clone());
        a.channel_byte = rng.below(16) as u8;
        b[wi].1 = a.encode();
        let _ = nm;
        inject(ctx, run, "BV channel in a C bank", b, true);
        // duplicated PWB chunk / dropped chunk / foreign chunk name
        let pi = nwb + rng.usize(npb);
        let mut b = base.clone();
        b.push(base[pi].clone());
        rng.shuffle(&mut b);
        inject(ctx, run, "PWB chunk bank duplicated", b, true);
        // the pads of one chip sent twice: a second, complete PWB message that names the same chip inside its payload but
        // travels under another chip label in its chunk headers (so it is a group of its own); long, and so short that
        // it leaves no sample after the delay. Which group is looked at first is up to a HashMap: tried several times.
        {
            let (nm, chip) = (base[pi].0.clone(), base[pi].1[10]);
            let mut cs: Vec<alpha_g_detector::padwing::Chunk> = base.iter().filter(|x| x.0 == nm && x.1[10] == chip).map(|x| super::must_chunk(&x.1)).collect();
            cs.sort_by_key(|c| c.chunk_id());
            let payload: Vec<u8> = cs.iter().flat_map(|c| c.payload().to_vec()).collect();
            let used: Vec<u8> = base.iter().filter(|x| x.0 == nm).map(|x| x.1[10]).collect();
            if let (Some(p0), Some(label)) = (crate::refs::pwb_ref(&payload), (0..4u8).find(|l| !used.contains(l))) {
                for variant in 0..4 {
                    let short = variant % 2 == 1;
                    let mut p = p0.clone();
                    if short {
                        p.requested_samples = 2;
                        for c in p.channels.iter_mut() {
                            c.1.truncate(2);
                        }
                    }
                    if variant >= 2 {
                        // an overlapping but different channel set: a new channel in front, the duplicated ones behind it
                        let free = (4u16..=79).find(|c| ![16, 29, 54, 67].contains(c) && !p.channels.iter().any(|x| x.0 == *c) && *c < p.channels[0].0);
                        let Some(free) = free else { continue };
                        let smp = p.channels[0].1.clone();
                        p.channels.insert(0, (free, smp));
                        p.sent_mask |= 1u128 << (free - 1);
                    }
                    for _ in 0..6 {
                        let mut b = base.clone();
                        for c in p.chunks(cs[0].board_id().device_id(), label, 300) {
                            b.push((nm.clone(), c.encode()));
                        }
                        rng.shuffle(&mut b);
                        inject(ctx, run, if short { "pads of a chip sent twice (second message without post-delay samples)" } else { "pads of a chip sent twice (second message under another chip label)" }, b, true);
                    }
                }
            }
        }
        // the packet inside correctly named and correctly headed chunks says it comes from another (known) board
        {
            let (nm, chip) = (base[pi].0.clone(), base[pi].1[10]);
            let mut cs: Vec<alpha_g_detector::padwing::Chunk> = base.iter().filter(|x| x.0 == nm && x.1[10] == chip).map(|x| super::must_chunk(&x.1)).collect();
            cs.sort_by_key(|c| c.chunk_id());
            let payload: Vec<u8> = cs.iter().flat_map(|c| c.payload().to_vec()).collect();
            if let Some(mut p) = crate::refs::pwb_ref(&payload) {
                let other = crate::refs::PWB_BOARDS.iter().find(|x| x.1 != p.mac && !base.iter().any(|y| y.0[2..] == *x.0)).unwrap();
                p.mac = other.1;
                let mut b: Banks = base.iter().filter(|x| !(x.0 == nm && x.1[10] == chip)).cloned().collect();
                for c in p.chunks(cs[0].board_id().device_id(), chip, 300) {
                    b.push((nm.clone(), c.encode()));
                }
                rng.shuffle(&mut b);
                inject(ctx, run, "PWB packet of another board inside the chunks of a bank", b, true);
            }
        }
        let mut b = base.clone();
        let other_pwb = crate::refs::PWB_BOARDS.iter().map(|x| x.0).find(|n| *n != &base[pi].0[2..]).unwrap();
        b[pi].0 = format!("PC{}", other_pwb);
        inject(ctx, run, "PWB bank renamed to another board", b, true);
        // TRG: second, none, malformed
        let mut b = base.clone();
        b.push(event::trg_bank(5));
        rng.shuffle(&mut b);
        inject(ctx, run, "second TRG bank", b, true);
        let mut b = base.clone();
        b.pop();
        inject(ctx, run, "TRG bank missing", b, true);
        let mut b = base.clone();
        let l = b.len() - 1;
        let mut t = Trg::simple(ev.ts, 77);
        t.drift = 0;
        b[l].1 = t.encode();
        inject(ctx, run, "malformed TRG payload", b, true);
        // every single reserved bit of the TRG packet, one at a time, inside the otherwise valid event
        {
            let ti = base.iter().position(|x| x.0 == "ATAT").unwrap();
            let reserved: Vec<(usize, u32)> = std::iter::once((0usize, 31u32)).chain((16..31).map(|b| (9, b))).chain((0..32).map(|b| (12, b))).chain((24..32).map(|b| (13, b))).chain((8..32).map(|b| (16, b))).chain((8..32).map(|b| (17, b))).collect();
            for (k, (w, bit)) in reserved.iter().enumerate() {
                if (k + i as usize) % 4 != 0 {
                    continue;
                }
                let mut b = base.clone();
                let v = u32::from_le_bytes(b[ti].1[4 * w..4 * w + 4].try_into().unwrap()) | (1 << bit);
                b[ti].1[4 * w..4 * w + 4].copy_from_slice(&v.to_le_bytes());
                inject(ctx, run, "malformed TRG payload (one reserved bit set)", b, true);
            }
        }
        // malformed wire / pad payloads
        let mut b = base.clone();
        let k = b[wi].1.len() - 1;
        b[wi].1[k] ^= 0x40;
        inject(ctx, run, "malformed wire payload (baseline)", b, true);
        let mut b = base.clone();
        let k = 20 + rng.usize(b[pi].1.len() - 24);
        b[pi].1[k] ^= 1 << rng.below(8);
        inject(ctx, run, "malformed PWB chunk (bit flip)", b, true);
        // unknown bank name
        let mut b = base.clone();
        b.push((rng.pick(&["XXXX", "C09W", "PC09", "atat", "C1900", "CBF1", "SEQ2"]).to_string(), vec![1, 2, 3]));
        inject(ctx, run, "unknown bank name", b, true);
        // an unknown name next to every family of known names (same first letter(s) as a barrel-veto, wire, pad, TRG,
        // TRB3, MC-vertex bank), at the front, in the middle and at the end of the event
        for (k, name) in ["B09G", "B17A", "B15A", "BXXX", "B09", "B090A", "b09A", "B0 A", "C15A", "C09W", "C17A", "PC09", "PC99", "PCAB", "PC0", "ATAU", "ATA", "ATATT", "TRBB", "TRB", "MCVY", "MCV", "XXXX", "", "C", "B", "P", "A"].iter().enumerate() {
            let mut b = base.clone();
            let at = [0, b.len() / 2, b.len()][(k + i as usize) % 3];
            b.insert(at, (name.to_string(), if k % 2 == 0 { vec![] } else { rng.bytes(8) }));
            inject(ctx, run, "unknown bank name (next to a known family)", b, true);
        }
        // foreign banks are ignored
        let mut b = base.clone();
        b.push(("B12F".into(), rng.bytes(33)));
        b.push(("TRBA".into(), vec![]));
        b.push(("MCVX".into(), rng.bytes(64)));
        rng.shuffle(&mut b);
        inject(ctx, run, "none (BV / TRBA / MCVX garbage present)", b, false);
        // board not installed for the run: a PadWing board that is in one pad map epoch but not the other
        if run != u32::MAX {
            let other_epoch = if run >= 10418 { 5000 } else { 10418 };
            let oinv = maps::inverse(other_epoch);
            let missing: Vec<&str> = crate::refs::PWB_BOARDS.iter().map(|x| x.0).filter(|n| oinv.pad.iter().flatten().any(|p| p.0 == *n) && !inv.pad.iter().flatten().any(|p| p.0 == *n)).collect();
            if let Some(nb) = missing.first() {
                let (col, row) = (0..32).flat_map(|c| (0..576).map(move |r| (c, r))).find(|(c, r)| oinv.pad[*c][*r].0 == *nb).unwrap();
                let mut pm = BTreeMap::new();
                pm.insert((col, row), vec![1725i16; 200]);
                let mut b = base.clone();
                b.extend(event::pad_banks(&oinv, &pm, 1400));
                inject(ctx, run, "PadWing board not installed for the run", b, true);
            } else {
                ctx.count("no PadWing board differs between the epochs (injection skipped)");
            }
        }
    });
    // ---- events without a single waveform sample need no map and no calibration: they must build for *every* run
    ctx.cases("no-samples", 24, |ctx, i, rng| {
        let run = [0u32, 1, 2940, 2941, 4417, 5000, 6999, 7000, 7025, 9276, 9277, 11084, 20000, u32::MAX - 1, u32::MAX, 123456789][(i % 16) as usize];
        get(run, &mut cache);
        let (_, inv) = cache.get(&run).unwrap();
        let ts = rng.next() as u32;
        let mut banks: Banks = vec![event::trg_bank(ts)];
        inject(ctx, run, "none (TRG bank only)", banks.clone(), false);
        for k in 0..3 {
            banks.push(suppressed_bank(inv, (i as usize * 11 + k * 50) % 256));
        }
        banks.push(("B09A".into(), rng.bytes(9)));
        banks.push(("TRBA".into(), rng.bytes(3)));
        banks.push(("MCVX".into(), vec![]));
        rng.shuffle(&mut banks);
        inject(ctx, run, "none (TRG + suppressed wire packets + foreign banks)", banks.clone(), false);
        match guard(|| build(run, &banks).map(|e| e.timestamp())) {
            Ok(Ok(t)) if t == ts => ctx.count("sample-less events built with the TRG timestamp"),
            Ok(Ok(t)) => ctx.violation("event timestamp is not the TRG packet's timestamp", format!("{} vs {}", t, ts), json!({"run": run})),
            _ => {}
        }
    });
    // ---- history independence: the same banks under run A, then under run B on the other side of the pad-map
    // re-arrangement (and back): every build is still compared slot by slot with the oracle of *its* run
    ctx.cases("run-history", ctx.tier.pick(32, 1000), |ctx, i, rng| {
        let seq: Vec<u32> = match i % 4 {
            0 => vec![u32::MAX, 11084, u32::MAX, 9500, 11084],
            1 => vec![9500, 10418, 9500, 12000],
            2 => vec![11500, u32::MAX, 10417, 10418],
            _ => vec![10417, 10418, 10417, 11084, 9277],
        };
        for r in &seq {
            get(*r, &mut cache);
        }
        // one board (all of its pads in one chip) + a few wires, identical raw data for every run of the sequence
        let bname = crate::refs::PWB_BOARDS[(i as usize * 7) % 71].0;
        for run in seq {
            let (cal, inv) = cache.get(&run).unwrap();
            // the pads this board serves in this run (if installed)
            let mut pads = BTreeMap::new();
            'outer: for c in 0..32 {
                for r in 0..576 {
                    if inv.pad[c][r].0 == bname && inv.pad[c][r].3 == 1 {
                        pads.insert((c, r), (0..140).map(|k| 1725 + ((k * 7 + r) % 50) as i16).collect::<Vec<i16>>());
                        if pads.len() >= 12 {
                            break 'outer;
                        }
                    }
                }
            }
            let mut wires = BTreeMap::new();
            for k in 0..3 {
                wires.insert((i as usize * 3 + k * 17) % 256, (0..160).map(|j| 3000 - (j % 13) as i16).collect::<Vec<i16>>());
            }
            let ev = Ev { wires, suppressed: vec![], pads, ts: run ^ 5 };
            let banks = banks_of(inv, &ev, rng);
            FRESH.with(|f| f.set(i % 2 == 1));
            check_event(ctx, cal, &ev, &banks);
            FRESH.with(|f| f.set(false));
            ctx.count("builds in run sequences across the map epochs");
        }
    });
    // ---- wire waveforms of 4 100..8 300 samples whose footer says the signal was last over threshold near sample 4 096
    // (keep_last 2 040..2 090, beyond 11 bits): the packet is well formed, the event must build with the right slots
    ctx.cases("long-wires", 16, |ctx, i, rng| {
        let run = [u32::MAX, 11500][(i % 2) as usize];
        get(run, &mut cache);
        let (cal, inv) = cache.get(&run).unwrap();
        let mut wires = BTreeMap::new();
        let mut banks: Banks = Vec::new();
        for k in 0..2usize {
            let w = (i as usize * 13 + k * 50) % 256;
            if cal.wire_need(w, 5000) != Need::Available {
                continue;
            }
            let kl = 2040 + rng.below(51) as u16;
            let n = (2 * kl as usize - 3) + rng.usize(100);
            let raw: Vec<i16> = (0..n).map(|_| 3000 + (rng.gauss() * 20.0) as i16).collect();
            let (name, mac, ch) = &inv.wire[w];
            let mut a = crate::enc::Adc::simple(*mac, *ch, raw.clone());
            a.keep_bit = true;
            a.keep_last = kl;
            banks.push((format!("C{}{}", name, std::char::from_digit(*ch as u32, 32).unwrap().to_ascii_uppercase()), a.encode()));
            wires.insert(w, raw);
        }
        banks.push(event::trg_bank(4));
        let ev = Ev { wires, suppressed: vec![], pads: BTreeMap::new(), ts: 4 };
        check_event(ctx, cal, &ev, &banks);
        ctx.count("events with wire waveforms of more than 4 096 samples");
    });
    // ---- events of 8 different run numbers (every map / calibration epoch) built on 8 threads at once, over and over:
    // the slots of each must equal, bit for bit, those of the same event built alone beforehand (which the stages above
    // compare with the oracle)
    ctx.cases("concurrent", ctx.tier.pick(4, 32), |ctx, i, rng| {
        let runs8: [u32; 8] = [u32::MAX, 9500, 10417, 10418, 11083, 11084, 11500, 12000];
        for r in runs8 {
            get(r, &mut cache);
        }
        let slot_digest = |me: &MainEvent| -> u64 {
            let mut d = Digest::new();
            d.u64(me.timestamp() as u64);
            for (k, s) in vh::wire_signals(me).iter().enumerate() {
                if let Some(s) = s {
                    d.u64(k as u64);
                    for x in s {
                        d.f64(*x);
                    }
                }
            }
            for (c, col) in vh::pad_signals(me).iter().enumerate() {
                for (r, s) in col.iter().enumerate() {
                    if let Some(s) = s {
                        d.u64((c * 1000 + r) as u64);
                        for x in s {
                            d.f64(*x);
                        }
                    }
                }
            }
            d.0
        };
        let mut jobs: Vec<(u32, Banks, Option<u64>)> = Vec::new();
        for r in runs8 {
            let (cal, inv) = cache.get(&r).unwrap();
            let ev = gen_event(rng, cal, None, None);
            let banks = banks_of(inv, &ev, rng);
            let alone = build(r, &banks).ok().map(|me| slot_digest(&me));
            jobs.push((r, banks, alone));
        }
        let rounds = ctx.tier.pick(6usize, 20);
        let bad: Vec<Option<String>> = std::thread::scope(|s| {
            let hs: Vec<_> = jobs
                .iter()
                .map(|(r, banks, alone)| {
                    let slot_digest = &slot_digest;
                    std::thread::Builder::new()
                        .stack_size(64 << 20)
                        .spawn_scoped(s, move || {
                            for round in 0..rounds {
                                let got = build(*r, banks).ok().map(|me| slot_digest(&me));
                                if got != *alone {
                                    return Some(format!("run {} (round {}): slots digest {:?}, built alone {:?}", r, round, got, alone));
                                }
                            }
                            None
                        })
                        .unwrap()
                })
                .collect();
            hs.into_iter().map(|h| h.join().unwrap_or(Some("thread panicked".into()))).collect()
        });
        ctx.eval_n(8 * rounds as u64);
        let _ = i;
        match bad.into_iter().flatten().next() {
            Some(b) => ctx.violation("the slots of an event depend on what other threads build at the same time", b, json!({})),
            None => ctx.count_n("concurrent builds identical to the same event built alone", 8 * rounds as u64),
        }
    });
    // ---- hook-free variant: a single pulse identifies its slot through avalanches()
    let m = crate::sim::Model::load(&repo_root());
    ctx.cases("hook-free", ctx.tier.pick(64, 1024), |ctx, _i, rng| {
        ctx.eval();
        get(u32::MAX, &mut cache);
        let (_, inv) = cache.get(&u32::MAX).unwrap();
        let w = rng.usize(256);
        let col = crate::evgen::wire_to_column(w);
        let row = 2 + rng.usize(570);
        let k = 120 + rng.usize(100);
        let mut ws = vec![3000i16; 400];
        for (j, r) in m.wr.iter().enumerate() {
            if k + j < 400 {
                ws[k + j] = (3000.0 + 150.0 * r).round() as i16;
            }
        }
        let mut pm = BTreeMap::new();
        for (dr, wgt) in [(-1i64, 0.5), (0, 1.0), (1, 0.5)] {
            let mut ps = vec![1725i16; 400];
            for (j, r) in m.pr.iter().enumerate() {
                if k + j < 400 {
                    ps[k + j] = (1725.0 + 700.0 * wgt * r).round() as i16;
                }
            }
            pm.insert((col, (row as i64 + dr) as usize), ps);
        }
        let mut banks = vec![event::wire_bank(inv, w, ws)];
        banks.extend(event::pad_banks(inv, &pm, 1400));
        banks.push(event::trg_bank(9));
        match guard(|| build(u32::MAX, &banks).map(|e| e.avalanches())) {
            Ok(Ok(av)) => {
                use uom::si::length::meter;
                let zrow = alpha_g_detector::padwing::map::TpcPadRow::try_from(row).unwrap().z();
                let ok = !av.is_empty() && av.iter().all(|a| crate::evgen::wire_of(a) == w && (a.z.get::<meter>() - zrow).abs() < 0.002) && av.iter().any(|a| ((a.t.get::<uom::si::time::second>() * 62.5e6).round() as usize) == k - 100);
                if !ok {
                    ctx.violation("single pulse is not reconstructed on its wire / pad row / time bin", format!("wire {} row {} bin {}: {} avalanches {:?}", w, row, k - 100, av.len(), av.first()), json!({"wire": w, "row": row}));
                } else {
                    ctx.count("hook-free pulses found on the right wire, row and time bin");
                }
            }
            Ok(Err(e)) => ctx.violation("valid single-pulse event does not build", e, json!({"wire": w})),
            Err(p) => ctx.panic_violation("try_from_banks / avalanches", &p, json!({"wire": w})),
        }
    });
    ctx.require("occupied slots compared bitwise", 1000);
    ctx.require("hook-free pulses found on the right wire, row and time bin", 32);
}
