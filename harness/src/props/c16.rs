//! C16 – reported track parameters are true closest-approach parameters.
use crate::core::*;
use alpha_g_physics::reconstruction::verif_hooks as vh;
use alpha_g_physics::reconstruction::Track;
use alpha_g_physics::SpacePoint;
use serde_json::json;
use std::f64::consts::PI;
use uom::si::angle::radian;
use uom::si::f64::{Angle, Length};
use uom::si::length::meter;

pub fn prop() -> Prop {
    Prop {
        id: "C16",
        level: "exploration",
        rule: "helices with centre within +-3 m, radius 0.03..5 m, any phase, pitch from {0, +-5e-324, +-1e-310, +-1e-17 .. +-1e2 (log-uniform and listed specials incl. values next to f64::EPSILON and the e=1 resonance h = 2 pi sqrt(r R))}; points in the drift volume and points within 1 cm of the helix (z offset scaled to the pitch). Helix::closest_t (hook, 20 iterations, tolerance EPSILON as in production) must return t in [-pi, pi], not NaN; an interior t is compared with a brute-force global minimum (dense grid adapted to the pitch + ternary refinement, distances evaluated with the library's Helix::at). Hook-free part: t_inner/t_outer and VertexInfo.tracks[i].1 of fitted tracks against Track::at. Non-trivial = distinct (helix, point) cases with an interior result. Also: exact special geometry (point on the helix axis, opposite the t = 0 point in the plane z = z0, on the curve, half a pitch away), phases of many turns, points beyond the ends of the revolution, Kepler resonance e = 1. Round 4: tracks fitted (library fit through the cluster hook) to curlers that stay inside the drift volume and miss a window of their hits around the farthest / nearest point, to helices of special pitch and to physical tracks: t_inner / t_outer in range always, and minimal when the end points are unambiguous and the helix is inside the stated ranges. Round 6: pitches on either side of powers of f64::EPSILON, on-axis points up to 1.2 m from the plane of the turn; clusters of 513..2049 hits. Fitted tracks whose helix lies outside the quantified ranges (radius 0.03..5 m, centre within 3 m) are held to the range / NaN clause only. Round 8: points 1e-12 .. 1e-4 m off the helix axis. Round 10: normal pitches between the subnormals and 1e-17 m (log-uniform 1e-307..1e-17 and values on either side of sqrt / cbrt of f64::MIN_POSITIVE). Round 9: points diametrically opposite the helix point of equal height with eccentricity within 2e-3 of 1.",
        assumptions: &["distance evaluated with the library's own Helix::at: only the minimisation is judged", "the grid (>= 20001 points, denser for large pitch) resolves the at most two local minima per revolution"],
        profiles: both,
        shards: shards16,
        no_progress_cpu_s: Some(120),
        run,
        finalize: None,
    }
}

pub fn dist2(p: [f64; 6], t: f64, q: (f64, f64, f64)) -> f64 {
    let c = vh::helix_at(p, t);
    let dx = c.x.get::<meter>() - q.0;
    let dy = c.y.get::<meter>() - q.1;
    let dz = c.z.get::<meter>() - q.2;
    dx * dx + dy * dy + dz * dz
}
/// brute-force global minimum distance over t in [-pi, pi]; returns (distance, t)
pub fn brute(p: [f64; 6], q: (f64, f64, f64)) -> (f64, f64) {
    // the narrowest basin has width ~ d_perp / (|h| / 2 pi); use enough grid points to put >= 8 in it
    let h = p[5].abs();
    let m: usize = if h > 1.0 { (20_000.0 * h.min(100.0)) as usize } else { 20_000 };
    let fast = |t: f64| {
        let x = p[3] * (t + p[4]).cos() + p[0] - q.0;
        let y = p[3] * (t + p[4]).sin() + p[1] - q.1;
        let z = p[5] / (2.0 * PI) * t + p[2] - q.2;
        x * x + y * y + z * z
    };
    // keep the 3 best separated grid minima
    let mut cands: Vec<(f64, f64)> = Vec::new();
    let mut prev = fast(-PI);
    let mut cur = fast(-PI + 2.0 * PI / m as f64);
    cands.push((prev, -PI));
    for k in 1..m {
        let t = -PI + 2.0 * PI * k as f64 / m as f64;
        let next = fast(-PI + 2.0 * PI * (k + 1) as f64 / m as f64);
        if cur <= prev && cur <= next {
            cands.push((cur, t));
        }
        prev = cur;
        cur = next;
    }
    cands.push((fast(PI), PI));
    cands.sort_by(|a, b| a.0.partial_cmp(&b.0).unwrap());
    cands.truncate(4);
    let dt = 2.0 * PI / m as f64;
    let mut best = (f64::INFINITY, 0.0);
    for (_, bt) in cands {
        let (mut lo, mut hi) = ((bt - dt).max(-PI), (bt + dt).min(PI));
        for _ in 0..100 {
            let m1 = lo + (hi - lo) / 3.0;
            let m2 = hi - (hi - lo) / 3.0;
            if fast(m1) < fast(m2) {
                hi = m2
            } else {
                lo = m1
            }
        }
        for t in [0.5 * (lo + hi), bt, lo, hi] {
            let d = dist2(p, t, q);
            if d < best.0 {
                best = (d, t);
            }
        }
    }
    (best.0.sqrt(), best.1)
}

fn decade(h: f64) -> String {
    if h == 0.0 {
        "pitch 0".into()
    } else if h.abs() < f64::MIN_POSITIVE {
        "pitch subnormal".into()
    } else {
        format!("pitch 1e{:+03}", h.abs().log10().floor() as i32)
    }
}

pub fn check_one(ctx: &mut Ctx, p: [f64; 6], sp: SpacePoint, t: f64, what: &str) {
    let qc = (sp.x().get::<meter>(), sp.y().get::<meter>(), sp.z.get::<meter>());
    let input = json!({"helix_x0_y0_z0_r_phi0_h": p, "helix_bits": p.iter().map(|x| x.to_bits()).collect::<Vec<_>>(), "point_r_phi_z": [sp.r.get::<meter>(), sp.phi.get::<radian>(), sp.z.get::<meter>()], "t": t, "what": what});
    if t.is_nan() {
        ctx.violation("closest-approach parameter is NaN", format!("{} h={:e}", what, p[5]), input);
        return;
    }
    if !(-PI..=PI).contains(&t) {
        ctx.violation("closest-approach parameter outside [-pi, pi]", format!("{} t={} h={:e}", what, t, p[5]), input);
        return;
    }
    let dk = decade(p[5]);
    if t > -PI && t < PI {
        let d = dist2(p, t, qc).sqrt();
        let (bd, bt) = brute(p, qc);
        ctx.count(&format!("interior results, {}", dk));
        let mut dg = Digest::new();
        for x in p {
            dg.f64(x);
        }
        dg.f64(qc.0);
        dg.f64(qc.1);
        dg.f64(qc.2);
        ctx.nontrivial(dg.0);
        ctx.observe_max(&format!("distance excess over the brute-force minimum, {} (m)", what), d - bd);
        if d - bd > 1e-9 {
            ctx.violation("interior t is not a closest-approach parameter", format!("{}: h={:e} R={} returned t={} at distance {:e}, but t'={} is at distance {:e} (closer by {:e} m)", what, p[5], p[3], t, d, bt, bd, d - bd), input);
        }
    } else {
        ctx.count(&format!("clamped results, {}", dk));
    }
}

fn run(ctx: &mut Ctx) {
    let specials = [0.0, 5e-324, -5e-324, 1e-310, -1e-310, 2.2e-308, 1e-17, -1e-17, 1e-16, 2.2e-16, f64::EPSILON, -f64::EPSILON, 2.3e-16, 1e-15, 1e-12, 1e-9, 1e-6, 1e-4, 1e-3, 1e-2, 0.1, -0.1, 0.5, -0.5, 1.0, 3.0, 10.0, 100.0, -100.0,
        // either side of powers of f64::EPSILON (4.9e-32, 1.49e-8, 6.06e-6, 1.22e-4): a guard written on h^2, h^3 or sqrt(h)
        4e-32, 6e-32, 2e-9, 5e-9, -8e-9, 1e-8, 1.4e-8, -1.4e-8, 1.6e-8, 3e-8, 1e-7, 5e-6, 7e-6, -7e-6, 1.1e-4, 1.3e-4,
        // "arbitrarily small": normal numbers far below 1e-17, on either side of sqrt / cbrt of f64::MIN_POSITIVE
        // (1.49e-154, 2.8e-103) where h^2 / h^3 start to underflow and 1/h^2 overflows (round 10)
        1e-300, -1e-300, 1e-200, 1.4e-154, 1.5e-154, -1.5e-154, 1.6e-154, 2e-154, 3e-154, -4e-154, 1e-153, 5e-153, 2e-103, 3e-103, -3e-103, 1e-100, 1e-60, 1e-30, -1e-25, 1e-20];
    let n = ctx.tier.pick(40_000, 1_500_000);
    ctx.cases("hook", n, |ctx, i, rng| {
        ctx.eval();
        let r_helix = if rng.chance(0.3) { rng.log_uniform(0.03, 5.0) } else { rng.range(0.03, 5.0) };
        let mut h = if rng.below(3) == 0 {
            *rng.pick(&specials)
        } else {
            let s = if rng.bool() { 1.0 } else { -1.0 };
            s * 10f64.powf(if rng.chance(0.1) { rng.range(-307.0, -17.0) } else { rng.range(-17.0, 2.0) })
        };
        // "any phase": mostly one turn, sometimes many turns away from zero (fit parameters are unconstrained)
        let phase = match rng.below(8) {
            0 => rng.range(-20.0, 20.0),
            1 => *rng.pick(&[2.0 * PI, -2.0 * PI, 7.0, -7.0, 3.0 * PI, 100.0, -1e3, PI, -PI]),
            _ => rng.range(-PI, PI),
        };
        let mut p = [rng.range(-3.0, 3.0), rng.range(-3.0, 3.0), rng.range(-1.3, 1.3), r_helix, phase, h];
        // helices that actually cross the detector half of the time
        if rng.bool() {
            let a = rng.range(-PI, PI);
            let d = r_helix + rng.range(-0.2, 0.2);
            p[0] = d * a.cos();
            p[1] = d * a.sin();
        }
        let near = rng.bool();
        let q = if !near {
            (rng.range(0.1, 0.19), rng.range(-PI, PI), rng.range(-1.2, 1.2))
        } else {
            let t = if rng.chance(0.2) { rng.range(-3.0 * PI, 3.0 * PI) } else { rng.range(-PI, PI) };
            if rng.chance(0.15) {
                // Kepler resonance e = 4 pi^2 r R / h^2 = 1 for a point next to the helix
                let c = vh::helix_at(p, t);
                let rr = (c.x.get::<meter>() - p[0]).hypot(c.y.get::<meter>() - p[1]);
                h = h.signum() * 2.0 * PI * (rr * r_helix).sqrt() * if rng.bool() { 1.0 } else { rng.range(0.999, 1.001) };
                if h == 0.0 {
                    h = 2.0 * PI * r_helix;
                }
                p[5] = h;
            }
            let c = vh::helix_at(p, t);
            let x = c.x.get::<meter>() + rng.range(-0.01, 0.01);
            let y = c.y.get::<meter>() + rng.range(-0.01, 0.01);
            let zs = if rng.bool() { 0.01 } else { h.abs().min(0.01) };
            let z = c.z.get::<meter>() + rng.range(-zs, zs);
            (x.hypot(y), y.atan2(x), z)
        };
        let sp = SpacePoint { r: Length::new::<meter>(q.0), phi: Angle::new::<radian>(q.1), z: Length::new::<meter>(q.2) };
        let t = match guard(|| vh::helix_closest_t(p, sp, f64::EPSILON, 20)) {
            Ok(t) => t,
            Err(pn) => {
                ctx.panic_violation("Helix::closest_t", &pn, json!({"helix": p, "point": [q.0, q.1, q.2]}));
                return;
            }
        };
        if i < 2 {
            ctx.sample(json!({"kind": "helix/point case", "helix_x0_y0_z0_r_phi0_h": p, "point_r_phi_z": [q.0, q.1, q.2], "returned_t": t, "point_near_helix": near}));
        }
        check_one(ctx, p, sp, t, if near { "point within 1 cm of the helix" } else { "point in the drift volume" });
    });
    // ---- special geometry: points exactly on the helix axis, exactly opposite the t = 0 point in the plane z = z0,
    // exactly on the curve at t in {0, +-pi/2, +-pi}, exactly at z = z0 (mean anomaly exactly 0 or +-pi)
    let n = ctx.tier.pick(6000, 200_000);
    ctx.cases("special-geometry", n, |ctx, i, rng| {
        ctx.eval();
        let r_helix = *rng.pick(&[0.03, 0.1, 0.15, 0.5, 1.0, 5.0]);
        let h = if rng.bool() { *rng.pick(&specials) } else { *rng.pick(&[0.3, -0.3, 1.0, 2.0, 1e-6, 1e-3, 50.0]) };
        let phi0 = *rng.pick(&[0.0, PI, -PI, PI / 2.0, 0.4, -2.0, 3.0, 7.0, -7.0, 2.0 * PI, 13.0]);
        let (x0, y0, z0) = match rng.below(3) {
            0 => (0.0, 0.0, 0.0),
            1 => (rng.range(-0.3, 0.3), rng.range(-0.3, 0.3), rng.range(-1.0, 1.0)),
            _ => (r_helix, 0.0, 0.02),
        };
        let p = [x0, y0, z0, r_helix, phi0, h];
        let dist = *rng.pick(&[0.0, 0.11, 0.15, r_helix, 0.19, 1e-300, 1e-17, 1e-12, 1e-9, 3e-9, 1e-8, 1e-7, 5e-7, 1e-6, 2e-6, 1e-4]);
        // (the pitch of case 6 is set from the geometry: eccentricity e = 4 pi^2 rho R / h^2 just below / above 1)
        let rho6 = rng.range(0.03, 0.3);
        let t6 = rng.range(-2.0, 2.0);
        let h6 = 2.0 * PI * (rho6 * r_helix).sqrt() * (1.0 + *rng.pick(&[1e-6, -1e-6, 1e-4, -1e-4, 5e-4, -5e-4, 1e-3, -1e-3, 2e-3, 0.0])) * if rng.bool() { 1.0 } else { -1.0 };
        let p = if i % 7 == 6 { [x0, y0, z0, r_helix, phi0, h6] } else { p };
        let h = if i % 7 == 6 { h6 } else { h };
        let (x, y, z, what) = match i % 7 {
            0 if rng.bool() => (x0, y0, z0 + rng.range(-1.2, 1.2), "point exactly on the helix axis"),
            0 => {
                // next to the axis: `dist` away from it in a random direction, z within half a pitch of z0 or anywhere
                let a = rng.range(-PI, PI);
                let dz = if rng.bool() { h * rng.range(-0.5, 0.5) } else { rng.range(-1.0, 1.0) };
                (x0 + dist * a.cos(), y0 + dist * a.sin(), z0 + dz, "point next to the helix axis")
            }
            1 => (x0 - dist * phi0.cos(), y0 - dist * phi0.sin(), z0, "point opposite the t = 0 point, in the plane z = z0"),
            2 => (x0 + dist * phi0.cos(), y0 + dist * phi0.sin(), z0, "point on the t = 0 ray, in the plane z = z0"),
            3 => {
                let t = *rng.pick(&[0.0, PI / 2.0, -PI / 2.0, PI, -PI, 1.0]);
                let c = vh::helix_at(p, t);
                (c.x.get::<meter>(), c.y.get::<meter>(), c.z.get::<meter>(), "point exactly on the curve")
            }
            4 => (x0 + dist * (phi0 + PI / 2.0).cos(), y0 + dist * (phi0 + PI / 2.0).sin(), z0 + h / 4.0, "point a quarter turn away"),
            6 => {
                // diametrically opposite the helix point of equal height (mean anomaly ~ 0), eccentricity next to 1
                let ang = phi0 + t6 + PI;
                let dz = *rng.pick(&[0.0, 1e-12, -1e-9, 1e-6]);
                (x0 + rho6 * ang.cos(), y0 + rho6 * ang.sin(), z0 + h * t6 / (2.0 * PI) + dz, "point opposite the helix point of equal height, eccentricity next to 1")
            }
            _ => (x0 - dist * phi0.cos(), y0 - dist * phi0.sin(), z0 + h / 2.0 * if rng.bool() { 1.0 } else { -1.0 }, "point opposite, half a pitch away"),
        };
        // the SpacePoint is given in cylindrical coordinates about the *detector* axis
        let sp = SpacePoint { r: Length::new::<meter>(x.hypot(y)), phi: Angle::new::<radian>(y.atan2(x)), z: Length::new::<meter>(z) };
        let t = match guard(|| vh::helix_closest_t(p, sp, f64::EPSILON, 20)) {
            Ok(t) => t,
            Err(pn) => {
                ctx.panic_violation("Helix::closest_t", &pn, json!({"helix": p, "point": [x, y, z]}));
                return;
            }
        };
        check_one(ctx, p, sp, t, what);
    });
    // ---- hook-free: fitted tracks (t_inner / t_outer) and primary-vertex parameters
    let n = ctx.tier.pick(160, 4000);
    ctx.cases("fitted", n, |ctx, _i, rng| {
        ctx.eval();
        let nt = 2 + rng.usize(3);
        let tracks = super::c14::fitted_tracks(rng, nt);
        // the minimiser clause is quantified over helices with centre within +-3 m and radius 0.03..5 m; a fit that went
        // astray (radius of millimetres, or negative) is only held to the range / NaN clause
        let in_range = |p: &[f64; 6]| (0.03..=5.0).contains(&p[3]) && p[0].abs() <= 3.0 && p[1].abs() <= 3.0 && p[2].abs() <= 3.0;
        for (tr, first, last) in &tracks {
            let p = vh::helix_params(tr);
            for (name, t) in [("t_inner", tr.t_inner()), ("t_outer", tr.t_outer())] {
                if t.is_nan() || !(-PI..=PI).contains(&t) {
                    ctx.violation("closest-approach parameter outside [-pi, pi] or NaN", format!("{} of a fitted track: {} (helix {:?})", name, t, p), json!({"helix": p}));
                }
            }
            if !in_range(&p) {
                ctx.count("fitted tracks outside the quantified helix ranges (range / NaN clause only)");
                continue;
            }
            check_one(ctx, p, *first, tr.t_inner(), "t_inner of a fitted track");
            check_one(ctx, p, *last, tr.t_outer(), "t_outer of a fitted track");
            ctx.count("fitted tracks checked (t_inner, t_outer)");
            // Track::at must be the same curve as the hook's helix_at
            let a = tr.at(0.3);
            let b = vh::helix_at(p, 0.3);
            if a.x != b.x || a.y != b.y || a.z != b.z {
                ctx.violation("Track::at differs from Helix::at", String::new(), json!({"helix": p}));
            }
        }
        let list: Vec<_> = tracks.iter().map(|t| t.0).collect();
        if let Ok(res) = guard(|| alpha_g_physics::reconstruction::find_vertices(list)) {
            if let Some(v) = res.primary {
                let pos = v.position;
                let sp = SpacePoint { r: pos.x.hypot(pos.y), phi: pos.y.atan2(pos.x), z: pos.z };
                for (tr, t) in &v.tracks {
                    if t.is_nan() || !(-PI..=PI).contains(t) {
                        ctx.violation("closest-approach parameter outside [-pi, pi] or NaN", format!("VertexInfo.tracks parameter {}", t), json!({"helix": vh::helix_params(tr)}));
                    }
                    if !in_range(&vh::helix_params(tr)) {
                        continue;
                    }
                    check_one(ctx, vh::helix_params(tr), sp, *t, "VertexInfo.tracks parameter");
                    ctx.count("primary-vertex track parameters checked");
                }
            }
        }
    });
    // ---- hook-assisted: clusters of chosen shapes (curlers that stay inside the drift volume with a gap in their hits,
    // helices with special pitches, physical tracks) fitted by the library; the end-point parameters of the fitted track
    let n = ctx.tier.pick(600, 20_000);
    ctx.cases("fitted-shapes", n, |ctx, i, rng| {
        let fam = [19usize, 19, 0, 12][(i % 4) as usize];
        // mostly 13..270 hits; now and then more than 2^9, 2^10, 2^11 (the property puts no bound on a cluster)
        let np = if i % 40 == 7 { *rng.pick(&[513usize, 600, 1025, 1200, 2049]) } else { 13 + rng.usize(if i % 5 == 0 { 200 } else { 60 }) };
        let pts = crate::geom::family(rng, if np > 500 { [0usize, 19][(i / 40 % 2) as usize] } else { fam }, np);
        if pts.len() < 13 {
            return;
        }
        ctx.eval();
        let v = pts.clone();
        let tr = match guard(move || Track::try_from(vh::cluster_from_points(v))) {
            Ok(Ok(t)) => t,
            Ok(Err(_)) => {
                ctx.count("fitted shapes: no track");
                return;
            }
            Err(p) => {
                ctx.panic_violation("Track::try_from(Cluster)", &p, json!({"family": crate::geom::FAMILIES[fam]}));
                return;
            }
        };
        let p = vh::helix_params(&tr);
        for (name, t) in [("t_inner", tr.t_inner()), ("t_outer", tr.t_outer())] {
            if t.is_nan() || !(-PI..=PI).contains(&t) {
                ctx.violation("closest-approach parameter outside [-pi, pi] or NaN", format!("{} of a fitted track ({}): {} (helix {:?})", name, crate::geom::FAMILIES[fam], t, p), json!({"helix": p, "points_r_phi_z_bits": super::c14::describe_points(&pts)}));
                return;
            }
        }
        ctx.count(&format!("fitted shapes: end-point parameters in range ({})", crate::geom::FAMILIES[fam]));
        // the minimiser comparison only inside the property's helix ranges and when the end points are unambiguous
        let mut rs: Vec<u64> = pts.iter().map(|q| crate::geom::rpz(q).0.to_bits()).collect();
        rs.sort();
        rs.dedup();
        if rs.len() == pts.len() && (0.03..=5.0).contains(&p[3]) && p[0].abs() <= 3.0 && p[1].abs() <= 3.0 && p[2].abs() <= 3.0 {
            let first = *pts.iter().min_by(|a, b| a.r.partial_cmp(&b.r).unwrap()).unwrap();
            let last = *pts.iter().max_by(|a, b| a.r.partial_cmp(&b.r).unwrap()).unwrap();
            check_one(ctx, p, first, tr.t_inner(), "t_inner of a fitted track");
            check_one(ctx, p, last, tr.t_outer(), "t_outer of a fitted track");
            ctx.count("fitted tracks checked (t_inner, t_outer)");
        }
    });
    ctx.require("fitted tracks checked (t_inner, t_outer)", 20);
    ctx.require("fitted shapes: end-point parameters in range (curler inside the drift volume with a gap in its hits)", 20);
}
