//! C06 – TRG packet decoding is exact and decoded counters are ordered.
use crate::core::*;
use crate::enc::*;
use crate::refs::*;
use alpha_g_detector::trigger::{TrgPacket, TrgV3Packet};
use serde_json::json;

pub fn prop() -> Prop {
    Prop {
        id: "C06",
        level: "exploration",
        rule: "every single bit of a valid packet flipped; each reserved bit individually set; all 16x16 header/footer nibbles; the four counters over all combinations of 12 boundary values (ties and all orderings); low-28 agreement variants; every field at {0,1,mid,max-1,max}; lengths 0..=200; random near-valid packets. Library vs reference accept/reject; accepted packets re-encoded from accessors and counter ordering asserted. Non-trivial = distinct 80-byte inputs with valid 0x8/0xE marks. Also: every pair of reserved bits (5 460 packets), each of the 28 trig_out bits wrong in header / footer / both with ordered counters, header and footer deviating by -d/+d, +d/+d, d/2d, lengths congruent to 80 modulo 2^8 and 2^16, alignment independence. Also (round 4): every byte offset x width 1/2/4 set to every integer literal found in the library sources (read from the tree under test) or a boundary value, alone and jointly with every single-bit flip and every byte forced to 00/FF elsewhere (about 10^7 packets), accept/reject against the reference and round trip. Round 5: every reserved bit and every single bit on top of all 8 tie patterns of the four counters. Round 6: valid packet followed / preceded by a checksum of itself (CRC-32C plain / inverted, word sum, xor, byte sum; 2- and 4-byte, either byte order). Round 7: one word copied onto another (every ordered pair of the 20 words) on a valid base and on bases breaking the counter ordering in each way. Round 8: two defects at once (every reserved bit, bad marks, on top of every way of breaking the counter ordering).",
        assumptions: &["reference TRG v3 layout (harness/src/refs.rs::trg_ref) transcribes the statement"],
        profiles: both,
        shards: shards16,
        no_progress_cpu_s: Some(60),
        run,
        finalize: None,
    }
}

pub fn check(ctx: &mut Ctx, b: &[u8], what: &str) {
    ctx.eval();
    let r = trg_ref(b);
    let l = match guard(|| TrgV3Packet::try_from(b)) {
        Ok(l) => l,
        Err(p) => {
            ctx.panic_violation("TrgV3Packet::try_from", &p, json!({"bytes": hex(b)}));
            return;
        }
    };
    if b.len() == 80 && b[7] >> 4 == 8 && b[79] >> 4 == 0xE {
        ctx.nontrivial_bytes(b);
    }
    {
        let m = Misaligned::new(b);
        let same = match (guard(|| TrgV3Packet::try_from(m.slice())), &l) {
            (Ok(Ok(a)), Ok(b2)) => format!("{:?}", a) == format!("{:?}", b2),
            (Ok(Err(_)), Err(_)) => true,
            _ => false,
        };
        if !same {
            ctx.violation("decoding depends on the alignment of the input slice", what.to_string(), json!({"bytes": hex(b)}));
            return;
        }
    }
    match (&l, r) {
        (Ok(_), false) => {
            ctx.violation("ill-formed TRG packet accepted", what.to_string(), json!({"bytes": hex(b)}));
            return;
        }
        (Err(_), true) => {
            ctx.violation("well-formed TRG packet rejected", format!("{} ({})", what, l.as_ref().err().unwrap()), json!({"bytes": hex(b)}));
            return;
        }
        (Ok(_), true) => ctx.count("accepted by both"),
        (Err(e), false) => {
            ctx.count("rejected by both");
            let v = format!("{:?}", e);
            let v = v.split(|c: char| !c.is_alphanumeric()).next().unwrap_or("").to_string();
            ctx.count(&format!("error variant {}", v));
        }
    }
    if let Ok(p) = l {
        if trg_reencode(&p) != b {
            ctx.violation("re-encoding accessors does not reproduce the 80 bytes", what.to_string(), json!({"bytes": hex(b)}));
        }
        if !(p.output_counter() <= p.scaledown_counter() && p.scaledown_counter() <= p.drift_veto_counter() && p.drift_veto_counter() <= p.input_counter()) {
            ctx.violation("accepted counters not ordered", what.to_string(), json!({"bytes": hex(b)}));
        }
        match TrgPacket::try_from(b) {
            Ok(w) if w.timestamp() == p.timestamp() && w.output_counter() == p.output_counter() && w.scaledown_counter() == Some(p.scaledown_counter()) => {}
            _ => ctx.violation("TrgPacket wrapper disagrees", what.to_string(), json!({"bytes": hex(b)})),
        }
    } else if TrgPacket::try_from(b).is_ok() {
        ctx.violation("TrgPacket wrapper accepts what TrgV3Packet rejects", what.to_string(), json!({"bytes": hex(b)}));
    }
}

/// accept/reject against the reference and the round trip only (for the very large enumerations)
fn check_light(ctx: &mut Ctx, b: &[u8], what: &str) {
    ctx.eval();
    let r = trg_ref(b);
    match guard(|| TrgV3Packet::try_from(b).map(|p| trg_reencode(&p))) {
        Err(p) => ctx.panic_violation("TrgV3Packet::try_from", &p, json!({"bytes": hex(b)})),
        Ok(Ok(_)) if !r => ctx.violation("ill-formed TRG packet accepted", what.to_string(), json!({"bytes": hex(b)})),
        Ok(Err(e)) if r => ctx.violation("well-formed TRG packet rejected", format!("{} ({})", what, e), json!({"bytes": hex(b)})),
        Ok(Ok(re)) => {
            if re != b {
                ctx.violation("re-encoding accessors does not reproduce the 80 bytes", what.to_string(), json!({"bytes": hex(b)}));
            }
        }
        Ok(Err(_)) => {}
    }
}

fn run(ctx: &mut Ctx) {
    // one field at a constant taken from the library's own sources (or a boundary value) and, jointly, any one bit
    // or byte elsewhere changed: acceptance must not hinge on particular values of unconstrained fields
    let dict = super::source_dictionary("detector/src");
    ctx.cases("dictionary-pairs", 80, |ctx, off, rng| {
        let mut n = 0;
        for out in [0x0123_4567u32, 0] {
            let seed = Trg::simple(rng.next() as u32, out).encode();
            let mut acc = 0u64;
            n += super::dict_pairs(&seed, off as usize, 0..80, &dict, |_| {}, |b| {
                check_light(ctx, b, "field at a source constant + one more change");
                acc += 1;
            });
            let _ = acc;
        }
        ctx.count_n("inputs with a field at a source constant", n);
    });
    ctx.require("inputs with a field at a source constant", 100_000);
    let vals: [u32; 12] = [0, 1, 2, 0x0FFF_FFFE, 0x0FFF_FFFF, 0x1000_0000, 0x1000_0001, 0x7FFF_FFFF, 0x8000_0000, 0xF000_0000, 0xFFFF_FFFE, 0xFFFF_FFFF];
    ctx.cases("structured", 16, |ctx, i, rng| {
        let base = Trg::simple(rng.next() as u32, [0x1234_5678u32, 0, 0xFFFF_FFF0, 0x0FFF_FFFF][(i % 4) as usize]);
        let bb = base.encode();
        if i == 0 {
            ctx.sample(json!({"kind": "valid TRG seed", "bytes": hex(&bb)}));
        }
        check(ctx, &bb, "seed");
        for bit in 0..640 {
            let mut b = bb.clone();
            b[bit / 8] ^= 1 << (bit % 8);
            check(ctx, &b, "single bit");
        }
        for pos in 0..80 {
            for v in [0u8, 1, 0x7F, 0x80, 0xFE, 0xFF] {
                let mut b = bb.clone();
                b[pos] = v;
                check(ctx, &b, "byte value");
            }
        }
        for hh in 0..16 {
            for fh in 0..16 {
                let mut t = base.clone();
                t.header_hi = hh;
                t.footer_hi = fh;
                check(ctx, &t.encode(), "marks");
            }
        }
        for l in 0..=200usize {
            let mut b = bb.clone();
            if l <= 80 {
                b.truncate(l)
            } else {
                b.extend(rng.bytes(l - 80))
            }
            check(ctx, &b, "length");
        }
        // low-28 agreement: header/footer differ from output only in the top nibble region or in one low bit
        for k in 0..28 {
            let mut t = base.clone();
            t.header_lo = Some((t.output ^ (1 << k)) & 0x0FFF_FFFF);
            check(ctx, &t.encode(), "header low bits");
            let mut t = base.clone();
            t.footer_lo = Some((t.output ^ (1 << k)) & 0x0FFF_FFFF);
            check(ctx, &t.encode(), "footer low bits");
        }
        for k in 28..32 {
            // output differing from header/footer only in bits 28..31 must still be accepted
            let mut t = base.clone();
            let o = t.output ^ (1 << k);
            t.header_lo = Some(o & 0x0FFF_FFFF);
            t.footer_lo = Some(o & 0x0FFF_FFFF);
            t.output = o;
            t.scaledown = t.scaledown.max(o);
            t.drift = t.drift.max(t.scaledown);
            t.input = t.input.max(t.drift);
            check(ctx, &t.encode(), "output high bits");
        }
    });
    // every pair of reserved bits set together (a check that combines words with xor / add would let some through)
    let reserved: Vec<(usize, u32)> = std::iter::once((0usize, 31u32))
        .chain((16..31).map(|b| (9, b)))
        .chain((0..32).map(|b| (12, b)))
        .chain((24..32).map(|b| (13, b)))
        .chain((8..32).map(|b| (16, b)))
        .chain((8..32).map(|b| (17, b)))
        .collect();
    let nres = reserved.len() as u64;
    ctx.cases("reserved-pairs", nres, |ctx, i, _rng| {
        let base = Trg::simple(77, 0x0123_4567).encode();
        let (w1, b1) = reserved[i as usize];
        for &(w2, b2) in &reserved[i as usize..] {
            let mut b = base.clone();
            let mut set = |w: usize, bit: u32, b: &mut Vec<u8>| {
                let v = u32::from_le_bytes(b[4 * w..4 * w + 4].try_into().unwrap()) | (1 << bit);
                b[4 * w..4 * w + 4].copy_from_slice(&v.to_le_bytes());
            };
            set(w1, b1, &mut b);
            set(w2, b2, &mut b);
            check(ctx, &b, "two reserved bits");
        }
    });
    // every reserved bit on top of every tie pattern of the four counters (a shortcut taken when counters are equal
    // must not skip the other checks)
    ctx.cases("reserved-on-ties", 8, |ctx, pat, _rng| {
        for out in [0u32, 1, 0x0123_4567, 0x0FFF_FFFF, 0xFFFF_FFFF] {
            let mut t = Trg::simple(9, out);
            t.scaledown = out.saturating_add((pat & 1) as u32);
            t.drift = t.scaledown.saturating_add(((pat >> 1) & 1) as u32);
            t.input = t.drift.saturating_add(((pat >> 2) & 1) as u32);
            let base = t.encode();
            check(ctx, &base, "tie pattern");
            for &(w, bit) in &reserved {
                let mut b = base.clone();
                let v = u32::from_le_bytes(b[4 * w..4 * w + 4].try_into().unwrap()) | (1 << bit);
                b[4 * w..4 * w + 4].copy_from_slice(&v.to_le_bytes());
                check(ctx, &b, "reserved bit on a tie pattern of the counters");
            }
            for bit in 0..640 {
                let mut b = base.clone();
                b[bit / 8] ^= 1 << (bit % 8);
                check_light(ctx, &b, "single bit on a tie pattern of the counters");
            }
        }
    });
    // two defects at once: every reserved bit on top of every way of breaking the counter ordering
    ctx.cases("two-defects", 6, |ctx, k, _rng| {
        let (ds, dd, di) = [(1i64, 4i64, 3i64), (4, 2, 3), (1, 2, 0), (-1, 2, 3), (5, 4, 3), (2, 1, 3)][k as usize];
        for out in [10u32, 0x0100_0000, 0x0FFF_FFF0] {
            let mut t = Trg::simple(9, out);
            t.scaledown = (out as i64 + ds) as u32;
            t.drift = (out as i64 + dd) as u32;
            t.input = (out as i64 + di) as u32;
            let base = t.encode();
            check(ctx, &base, "counters out of order");
            for &(w, bit) in &reserved {
                let mut b = base.clone();
                let v = u32::from_le_bytes(b[4 * w..4 * w + 4].try_into().unwrap()) | (1 << bit);
                b[4 * w..4 * w + 4].copy_from_slice(&v.to_le_bytes());
                check_light(ctx, &b, "reserved bit set and counters out of order");
            }
            // and with bad marks / bad low-28 agreement on top
            for (hh, fh) in [(0x8u32, 0x8u32), (0xE, 0xE), (0x0, 0xE), (0x8, 0x0)] {
                let mut x = t.clone();
                x.header_hi = hh;
                x.footer_hi = fh;
                check_light(ctx, &x.encode(), "bad marks and counters out of order");
            }
            ctx.count("packets with two defects at once");
        }
    });
    // header / footer / output agreement on every single bit of the 28, with ordered counters
    ctx.cases("trigout-bits", 28, |ctx, k, _rng| {
        for out in [0x00AB_CDEFu32, 0x0FFF_FFFF, 0, 0x0800_0001] {
            let t = Trg::simple(5, out);
            for which in 0..3 {
                let mut x = t.clone();
                let v = (out ^ (1 << k)) & 0x0FFF_FFFF;
                match which {
                    0 => x.header_lo = Some(v),
                    1 => x.footer_lo = Some(v),
                    _ => {
                        x.header_lo = Some(v);
                        x.footer_lo = Some(v);
                    }
                }
                // keep the counters ordered whatever the output is
                x.scaledown = x.scaledown.max(x.output);
                x.drift = x.drift.max(x.scaledown);
                x.input = x.input.max(x.drift);
                check(ctx, &x.encode(), "trig_out bit disagreement");
            }
        }
    });
    // header and footer deviating from the output counter in opposite / equal / unrelated ways
    ctx.cases("deviations", 64, |ctx, i, rng| {
        let out = [1000u32, 0x0FFF_FFFF, 0, 0x0800_0000, 12345678][(i % 5) as usize];
        for d in [1i64, 2, 7, 256, 65536, 0x07FF_FFFF, rng.below(1 << 27) as i64 + 1] {
            for (dh, df) in [(-d, d), (d, -d), (d, d), (-d, -d), (d, 0), (0, d), (d, 2 * d)] {
                let mut t = Trg::simple(5, out);
                t.header_lo = Some(((out as i64 + dh) & 0x0FFF_FFFF) as u32);
                t.footer_lo = Some(((out as i64 + df) & 0x0FFF_FFFF) as u32);
                check(ctx, &t.encode(), "header / footer deviations");
            }
        }
    });
    // lengths congruent to 80 modulo 2^8, 2^16 (a length held in a narrower type), plus 2 x 80
    ctx.cases("lengths", 12, |ctx, i, rng| {
        let base = Trg::simple(rng.next() as u32, 77).encode();
        let l = [80usize + 256, 80 + 512, 80 + 65536, 80 + 2 * 65536, 160, 80 + 65535, 80 + 65537, 65536, 65616 - 80, 80 + 4096, 336, 80 + 3 * 65536][i as usize];
        let mut b = base.clone();
        b.resize(l, 0);
        check(ctx, &b, "length congruent to 80 modulo a power of two");
        let mut b = base.clone();
        while b.len() < l {
            b.extend(&base);
        }
        b.truncate(l);
        check(ctx, &b, "valid packet repeated up to a length congruent to 80");
    });
    // one word copied onto another (every ordered pair of the 20 words), on a valid base and on bases that break the counter
    // ordering in each way: an unconstrained field that happens to EQUAL a constrained one must change nothing
    ctx.cases("word-equalities", 20, |ctx, i, rng| {
        let i = i as usize;
        let mut bases: Vec<Vec<u8>> = Vec::new();
        for (ds, dd, di) in [(1i64, 2i64, 3i64), (1, 4, 3), (4, 2, 3), (1, 2, 0), (0, 0, 0), (5, 5, 5), (-1, 2, 3)] {
            let out = 1000 + rng.below(1000) as u32;
            let mut t = Trg::simple(rng.next() as u32, out);
            t.scaledown = (out as i64 + ds) as u32;
            t.drift = (out as i64 + dd) as u32;
            t.input = (out as i64 + di) as u32;
            t.pulser = rng.next() as u32;
            bases.push(t.encode());
        }
        for base in &bases {
            for j in 0..20usize {
                if j == i {
                    continue;
                }
                let mut b = base.clone();
                let w: [u8; 4] = b[4 * j..4 * j + 4].try_into().unwrap();
                b[4 * i..4 * i + 4].copy_from_slice(&w);
                check_light(ctx, &b, "one word copied onto another");
                // and onto two others at once
                let k = (i + 7) % 20;
                if k != j {
                    b[4 * k..4 * k + 4].copy_from_slice(&w);
                    check_light(ctx, &b, "one word copied onto two others");
                }
                ctx.count("packets with one word copied onto another");
            }
        }
    });
    // a valid packet followed (or preceded) by a word that is a checksum of it: CRC-32C plain / inverted, either byte
    // order, word sum, word xor, byte sum; also as a 2-byte trailer
    ctx.cases("checksum-trailers", 8, |ctx, i, rng| {
        let base = Trg::simple(rng.next() as u32, [0u32, 77, 0x0FFF_FFFF, 0x1234_5678][(i % 4) as usize]).encode();
        let crc = crate::enc::crc32c(&base);
        let words: Vec<u32> = base.chunks(4).map(|c| u32::from_le_bytes(c.try_into().unwrap())).collect();
        let sum = words.iter().fold(0u32, |a, b| a.wrapping_add(*b));
        let xor = words.iter().fold(0u32, |a, b| a ^ *b);
        let bsum = base.iter().fold(0u32, |a, b| a.wrapping_add(*b as u32));
        for v in [crc, !crc, sum, !sum, sum.wrapping_neg(), xor, !xor, bsum, 0, u32::MAX] {
            for tr in [v.to_le_bytes().to_vec(), v.to_be_bytes().to_vec(), v.to_le_bytes()[..2].to_vec(), v.to_be_bytes()[2..].to_vec()] {
                let mut b = base.clone();
                b.extend(&tr);
                check(ctx, &b, "valid packet followed by a checksum of itself");
                let mut b = tr.clone();
                b.extend(&base);
                check(ctx, &b, "valid packet preceded by a checksum of itself");
                ctx.count("packets with a checksum trailer / leader");
            }
        }
    });
    // all orderings / ties of the counters
    ctx.cases("counters", 144, |ctx, i, _rng| {
        let o = vals[(i / 12) as usize];
        let s = vals[(i % 12) as usize];
        for &d in &vals {
            for &inp in &vals {
                let mut t = Trg::simple(5, o);
                t.scaledown = s;
                t.drift = d;
                t.input = inp;
                check(ctx, &t.encode(), "counters");
                // neighbours
                for (ds, dd, di) in [(1i64, 0i64, 0i64), (0, 1, 0), (0, 0, 1), (-1, 0, 0), (0, -1, 0), (0, 0, -1)] {
                    let mut t = Trg::simple(5, o);
                    t.scaledown = (s as i64 + ds).clamp(0, u32::MAX as i64) as u32;
                    t.drift = (d as i64 + dd).clamp(0, u32::MAX as i64) as u32;
                    t.input = (inp as i64 + di).clamp(0, u32::MAX as i64) as u32;
                    check(ctx, &t.encode(), "counters+-1");
                }
            }
        }
    });
    let n = ctx.tier.pick(300_000, 100_000_000);
    ctx.cases("random", n, |ctx, _i, rng| {
        let mut t = Trg::simple(rng.next() as u32, rng.next() as u32 >> rng.below(32));
        let o = t.output;
        t.scaledown = o.saturating_add(rng.below(3) as u32);
        t.drift = t.scaledown.saturating_add(rng.below(3) as u32);
        t.input = t.drift.saturating_add(rng.below(3) as u32 * rng.below(1000) as u32);
        t.udp = rng.next() as u32 >> rng.below(2);
        t.pulser = rng.next() as u32;
        t.trigger_bitmap = rng.next() as u32;
        t.nim = rng.next() as u32;
        t.esata = rng.next() as u32;
        t.mlu = rng.bool();
        t.aw16_prompt = rng.next() as u16;
        t.aw16_mult = rng.next() as u8;
        t.aw16_bus = rng.next() as u16;
        t.bsc64_bus = rng.next();
        t.bsc64_mult = rng.next() as u8;
        t.latch = rng.next() as u8;
        t.fw = rng.next() as u32;
        match rng.below(16) {
            0 => t.header_lo = Some(rng.next() as u32 & 0xFFFFFFF),
            1 => t.footer_lo = Some((o ^ (1 << rng.below(28))) & 0xFFFFFFF),
            2 => t.w36_reserved = 1 << (16 + rng.below(15)),
            3 => t.w48 = 1 << rng.below(32),
            4 => t.w52_hi = 1 << rng.below(8),
            5 => t.w64_hi = 1 << (8 + rng.below(24)),
            6 => t.w68_hi = 1 << (8 + rng.below(24)),
            7 => t.udp |= 0x8000_0000,
            8 => {
                // permute the counters
                let mut c = [t.output, t.scaledown, t.drift, t.input];
                rng.shuffle(&mut c);
                t.scaledown = c[1];
                t.drift = c[2];
                t.input = c[3];
            }
            _ => {}
        }
        let mut b = t.encode();
        match rng.below(30) {
            0 => {
                let i = rng.usize(80);
                b[i] = rng.next() as u8;
            }
            1 => b.truncate(rng.usize(81)),
            2 => b.push(0),
            _ => {}
        }
        check(ctx, &b, "random");
    });
    ctx.require("accepted by both", 1000);
    ctx.require("rejected by both", 1000);
}
