//! C13 – reconstruction respects the detector's cylindrical and mirror symmetry.
use crate::core::*;
use crate::evgen::*;
use crate::sim::Model;
use alpha_g_physics::verif_hooks as vh;
use alpha_g_physics::Avalanche;
use serde_json::json;
use uom::si::length::meter;

pub const KF1: &str = "rotation: all 256 anode wires carry data";
pub const KF2: &str = "mirror: equal pad amplitudes competing at one (pad column, time bin)";

pub fn prop() -> Prop {
    Prop {
        id: "C13",
        level: "exploration",
        rule: "(a) hook wire_deconvolution on explicit signal arrays: random occupancy, single blocks of every length at every start (seam-straddling included), full ring, full ring minus 1..4 wires, blocks touching the 255/0 seam, differing per-wire lengths, noise; all 31 rotations must give bit-identical per-wire outputs; (b) whole events (forward model and random hit patterns) through main_event_from_signals(..).avalanches() and through the hook-free bank route (simulation run number): rotations {1,5,17,31} quick / all 31 thorough and the row mirror; avalanche multisets compared on (t, wire - 8k, z, wire amplitude, pad amplitude) bit for bit, mirror z within 1e-9 m. Non-trivial = distinct (event, rotation) pairs with >= 1 avalanche (or non-zero output) and a block touching or crossing the 255/0 seam in one of the two placements. Also: pad clusters on the first / last usable rows; one channel of a block 40..140 samples longer with a pulse in the part only it has. Round 6: very busy events (up to ~13 000 avalanches) under rotation and mirror; pads cut to different lengths chip by chip. Round 7: clusters on different rows in every column of the busy events; wires cut to different lengths (several blocks, late hits).",
        assumptions: &["hook main_event_from_signals only fills the private arrays", "known findings KF1 / KF2 are matched by exact signature (occupancy == 256 for rotation; a bit-equal pad-amplitude tie in a mismatching (column, bin) for the mirror)"],
        profiles: release_only,
        shards: shards16,
        no_progress_cpu_s: Some(300),
        run,
        finalize: None,
    }
}

fn to_array(wires: &Wires) -> [Option<Vec<f64>>; 256] {
    let mut arr: [Option<Vec<f64>>; 256] = [(); 256].map(|_| None);
    for (w, s) in wires {
        arr[*w] = Some(s.clone());
    }
    arr
}
fn avalanches(ctx: &mut Ctx, wires: &Wires, pads: &Pads) -> Option<Vec<Avalanche>> {
    ctx.eval();
    match guard(|| vh::main_event_from_signals(wires.clone(), pads.clone(), 0).avalanches()) {
        Ok(a) => Some(a),
        Err(p) => {
            ctx.panic_violation("avalanches()", &p, json!({"n_wires": wires.len(), "n_pads": pads.len()}));
            None
        }
    }
}
fn describe(wires: &Wires, pads: &Pads) -> serde_json::Value {
    json!({
        "wires": wires.iter().map(|(w, s)| json!({"wire": w, "signal_bits": s.iter().map(|x| x.to_bits()).collect::<Vec<_>>()})).collect::<Vec<_>>(),
        "pads": pads.iter().map(|(c, r, s)| json!({"col": c, "row": r, "signal_bits": s.iter().map(|x| x.to_bits()).collect::<Vec<_>>()})).collect::<Vec<_>>(),
    })
}

/// candidate pad hits (amplitudes) per (column, time bin) recomputed from the per-pad deconvolution hook
/// and the 3-row local-maximum rule; returns the (column, bin) pairs holding two bit-equal amplitudes
fn tie_bins(pads: &Pads) -> Vec<(usize, usize)> {
    use std::collections::BTreeMap;
    let mut cols: BTreeMap<usize, BTreeMap<usize, Vec<f64>>> = BTreeMap::new();
    for (c, r, s) in pads {
        cols.entry(*c).or_default().insert(*r, vh::pad_deconvolution(s));
    }
    let mut out = Vec::new();
    for (c, rows) in cols {
        let tmax = rows.values().map(|v| v.len()).max().unwrap_or(0);
        for t in 0..tmax {
            let at = |r: i64| -> f64 { if r < 0 { 0.0 } else { rows.get(&(r as usize)).and_then(|v| v.get(t)).copied().unwrap_or(0.0) } };
            let mut amps: Vec<u64> = Vec::new();
            for r in 1..575i64 {
                let (f, m, l) = (at(r - 1), at(r), at(r + 1));
                if f > 0.0 && l > 0.0 && m > f && m > l {
                    amps.push(m.to_bits());
                }
            }
            amps.sort();
            if amps.windows(2).any(|w| w[0] == w[1]) {
                out.push((c, t));
            }
        }
    }
    out
}

pub fn check_event(ctx: &mut Ctx, wires: &Wires, pads: &Pads, rots: &[usize], what: &str) {
    let Some(base) = avalanches(ctx, wires, pads) else { return };
    let mut kb: Vec<_> = base.iter().map(key).collect();
    kb.sort();
    let full = wires.len() == 256;
    for &rot in rots {
        let (w2, p2) = rotate(wires, pads, rot);
        let Some(out) = avalanches(ctx, &w2, &p2) else { return };
        let mut ko: Vec<_> = out.iter().map(|a| { let k = key(a); (k.0, (k.1 + 256 - 8 * rot) % 256, k.2, k.3, k.4) }).collect();
        ko.sort();
        ctx.count(&format!("{}: rotations compared", what));
        if !base.is_empty() && (touches_seam(wires) || touches_seam(&w2)) {
            let mut d = Digest::new();
            for k in &kb {
                d.u64(k.0 ^ k.2);
                d.u64(k.1 as u64);
            }
            d.u64(rot as u64);
            ctx.nontrivial(d.0);
            ctx.count(&format!("{}: rotations with a block touching/crossing the seam", what));
        }
        if ko != kb {
            if full {
                ctx.violation(KF1, format!("{}: rotation by {} columns of a full-ring event changes the avalanches ({} vs {})", what, rot, ko.len(), kb.len()), json!({"rotation": rot, "note": "all 256 wires occupied"}));
            } else {
                let diff = kb.iter().zip(&ko).find(|(a, b)| a != b).map(|(a, b)| format!("{:?} vs {:?}", a, b)).unwrap_or_default();
                ctx.violation("rotation changes the avalanche multiset", format!("{}: rotation by {} pad columns, {} wires occupied: {} vs {} avalanches; first difference {}", what, rot, wires.len(), kb.len(), ko.len(), diff), json!({"rotation": rot, "event": describe(wires, pads)}));
                return;
            }
        }
    }
    // mirror
    let p3 = mirror(pads);
    let Some(out) = avalanches(ctx, wires, &p3) else { return };
    ctx.count(&format!("{}: mirrors compared", what));
    let strip = |v: &Vec<Avalanche>, neg: bool| {
        let mut k: Vec<(u64, usize, u64, u64, f64)> = v.iter().map(|a| { let k = key(a); (k.0, k.1, k.2, k.3, if neg { -a.z.get::<meter>() } else { a.z.get::<meter>() }) }).collect();
        k.sort_by(|a, b| (a.0, a.1, a.2, a.3).cmp(&(b.0, b.1, b.2, b.3)).then(a.4.partial_cmp(&b.4).unwrap()));
        k
    };
    let (a, b) = (strip(&base, false), strip(&out, true));
    let ok = a.len() == b.len() && a.iter().zip(&b).all(|(x, y)| (x.0, x.1, x.2, x.3) == (y.0, y.1, y.2, y.3) && (x.4 - y.4).abs() <= 1e-9);
    if !ok {
        // attribute to KF2 only if a mismatching (column, time bin) holds two bit-equal candidate amplitudes
        let ties = tie_bins(pads);
        let mism: Vec<(usize, u64)> = {
            let mut v = Vec::new();
            for x in a.iter().chain(b.iter()) {
                let cnt_a = a.iter().filter(|y| (y.0, y.1, y.2, y.3) == (x.0, x.1, x.2, x.3) && (y.4 - x.4).abs() <= 1e-9).count();
                let cnt_b = b.iter().filter(|y| (y.0, y.1, y.2, y.3) == (x.0, x.1, x.2, x.3) && (y.4 - x.4).abs() <= 1e-9).count();
                if cnt_a != cnt_b {
                    v.push((wire_to_column(x.1), x.0));
                }
            }
            v
        };
        let rate = alpha_g_detector::alpha16::ADC32_RATE;
        let all_tied = !mism.is_empty() && mism.iter().all(|(c, tb)| { let t = (f64::from_bits(*tb) * rate).round() as usize; ties.contains(&(*c, t)) });
        if all_tied {
            ctx.violation(KF2, format!("{}: mirror mismatch only in bins with a bit-equal pad-amplitude tie", what), json!({"tie_bins": ties}));
        } else {
            ctx.violation("mirroring the pad rows does not mirror the avalanches", format!("{}: {} vs {} avalanches; mismatching (column, t bits) {:?}; tie bins {:?}", what, a.len(), b.len(), mism.iter().take(4).collect::<Vec<_>>(), ties.iter().take(4).collect::<Vec<_>>()), json!({"event": describe(wires, pads)}));
        }
    }
}

fn run(ctx: &mut Ctx) {
    let m = Model::load(&repo_root());
    let thorough = !ctx.quick();
    // ---- (a) wire deconvolution placements
    let n = ctx.tier.pick(360, 12_000);
    ctx.cases("wire-placements", n, |ctx, i, rng| {
        let mode = i % 6;
        let occ = occupancy(rng, mode);
        let nocc = occ.iter().filter(|x| **x).count();
        if nocc == 0 {
            return;
        }
        let len = 100 + rng.usize(300);
        let nh = 1 + rng.usize(6);
        let noise = *rng.pick(&[0.0, 1.0]);
        let (mut wires, _) = random_hits(&m, rng, &occ, nh, len, noise, true);
        if i % 2 == 1 {
            for (_, s) in wires.iter_mut() {
                let l = s.len() - rng.usize(5);
                s.truncate(l);
            }
        }
        if i % 3 == 0 && !wires.is_empty() {
            // one channel (often the first or last wire of a block) 40..140 samples longer, with a late pulse
            let blocks = vh::contiguous_ranges(&to_array(&wires));
            let (f, l) = *rng.pick(&blocks);
            let target = match rng.below(3) {
                0 => f,
                1 => (l + 255) % 256,
                _ => wires[rng.usize(wires.len())].0,
            };
            if let Some((_, s)) = wires.iter_mut().find(|(w, _)| *w == target) {
                let extra = 40 + rng.usize(100);
                let k = s.len() + rng.usize(extra - 30);
                s.extend(vec![0.0; extra]);
                let a = 10f64.powf(rng.range(1.5, 3.0));
                for (j, r) in m.wr.iter().enumerate() {
                    if k + j < s.len() {
                        s[k + j] = (s[k + j] + a * r).round();
                    }
                }
            }
        }
        if i == 1 {
            ctx.sample(json!({"kind": "wire occupancy pattern", "occupied_wires": nocc, "mode": mode, "hits": nh, "len": len, "rotations": 31}));
        }
        ctx.eval();
        let base = match guard(|| vh::wire_deconvolution(&to_array(&wires))) {
            Ok(b) => b,
            Err(p) => {
                ctx.panic_violation("wire deconvolution", &p, json!({"occupied": nocc}));
                return;
            }
        };
        let ranges = vh::contiguous_ranges(&to_array(&wires));
        if ranges.iter().any(|(f, l)| f > l) {
            ctx.count("placements with a merged seam block (first > last)");
        }
        let mut basemap: Vec<Option<Vec<u64>>> = vec![None; 256];
        let nonzero = base.iter().any(|(_, v)| v.iter().any(|x| *x > 0.0));
        for (w, v) in base {
            basemap[w] = Some(v.iter().map(|x| x.to_bits()).collect());
        }
        let rots: Vec<usize> = if thorough || i % 4 == 0 { (1..32).collect() } else { vec![1, 5, 17, 31, 1 + rng.usize(31)] };
        for rot in rots {
            ctx.eval();
            let (w2, _) = rotate(&wires, &Vec::new(), rot);
            let out = match guard(|| vh::wire_deconvolution(&to_array(&w2))) {
                Ok(b) => b,
                Err(p) => {
                    ctx.panic_violation("wire deconvolution", &p, json!({"occupied": nocc, "rotation": rot}));
                    return;
                }
            };
            let mut ok = out.len() == nocc;
            for (w, v) in &out {
                let src = (w + 256 - 8 * rot) % 256;
                ok &= basemap[src].as_ref().map(|b| b.len() == v.len() && b.iter().zip(v).all(|(x, y)| *x == y.to_bits())).unwrap_or(false);
            }
            ctx.count(&format!("wire-deconvolution rotations compared, occupancy {}", if nocc == 256 { "256 (full ring)" } else if nocc >= 252 { "252..255" } else { "< 252" }));
            if vh::contiguous_ranges(&to_array(&w2)).iter().any(|(f, l)| f > l) {
                ctx.count("placements with a merged seam block (first > last)");
            }
            if nonzero && (touches_seam(&wires) || touches_seam(&w2)) {
                let mut d = Digest::new();
                for (w, s) in &wires {
                    d.u64(*w as u64);
                    for x in s {
                        d.f64(*x);
                    }
                }
                d.u64(rot as u64);
                ctx.nontrivial(d.0);
            }
            if !ok {
                if nocc == 256 {
                    ctx.violation(KF1, format!("rotation by {} columns of a full ring changes the deconvolved amplitudes", rot), json!({"rotation": rot}));
                } else {
                    ctx.violation("rotating the wire signals changes the deconvolved amplitudes", format!("occupancy {} (mode {}), rotation {} columns", nocc, mode, rot), json!({"rotation": rot, "event": describe(&wires, &Vec::new())}));
                    return;
                }
            }
        }
    });
    // every single block length at seam-straddling starts (thorough: every start)
    let n = if thorough { 255 * 16 } else { 255 };
    ctx.cases("blocks", n, |ctx, i, rng| {
        let l = 1 + (i % 255) as usize;
        let start = if thorough { ((i / 255) * 16 + rng.below(16)) as usize % 256 } else { (256 - rng.usize(l + 1)) % 256 };
        let mut occ = [false; 256];
        for k in 0..l {
            occ[(start + k) % 256] = true;
        }
        let nh = 1 + rng.usize(4);
        let (wires, _) = random_hits(&m, rng, &occ, nh, 120, 0.0, true);
        ctx.eval();
        let base = vh::wire_deconvolution(&to_array(&wires));
        let mut basemap: Vec<Option<Vec<u64>>> = vec![None; 256];
        for (w, v) in base {
            basemap[w] = Some(v.iter().map(|x| x.to_bits()).collect());
        }
        for rot in [1usize, 13, 31] {
            ctx.eval();
            let (w2, _) = rotate(&wires, &Vec::new(), rot);
            let out = vh::wire_deconvolution(&to_array(&w2));
            let ok = out.len() == l && out.iter().all(|(w, v)| basemap[(w + 256 - 8 * rot) % 256].as_ref().map(|b| b.len() == v.len() && b.iter().zip(v).all(|(x, y)| *x == y.to_bits())).unwrap_or(false));
            ctx.count("single-block rotations compared");
            if !ok {
                ctx.violation("rotating a single block of wires changes the deconvolved amplitudes", format!("block length {} start {} rotation {}", l, start, rot), json!({"event": describe(&wires, &Vec::new()), "rotation": rot}));
                return;
            }
        }
    });
    // ---- (b) whole events through the hook
    let n = ctx.tier.pick(64, 2500);
    let rots_q = [1usize, 5, 17, 31];
    let rots_t: Vec<usize> = (1..32).collect();
    ctx.cases("events", n, |ctx, i, rng| {
        let (wires, pads) = match i % 4 {
            0 => {
                let noise = *rng.pick(&[0.0, 1.5]);
                let (w, p, _) = sim_event(&m, rng, noise);
                (w, p)
            }
            1 => {
                let occ = occupancy(rng, 4);
                let nh = 2 + rng.usize(8);
                random_hits(&m, rng, &occ, nh, 250, 1.0, true)
            }
            2 => {
                let occ = occupancy(rng, if i % 8 == 2 { 2 } else { 3 });
                let nh = 2 + rng.usize(10);
                random_hits(&m, rng, &occ, nh, 200, 1.0, true)
            }
            _ => {
                let mode = rng.below(2) * 5;
                let occ = occupancy(rng, mode);
                let nh = 2 + rng.usize(10);
                let (noise, round) = (*rng.pick(&[0.0, 0.7]), rng.bool());
                random_hits(&m, rng, &occ, nh, 250, noise, round)
            }
        };
        if i == 0 {
            ctx.sample(json!({"kind": "forward-model event", "occupied_wires": wires.len(), "pads": pads.len()}));
        }
        let rots: &[usize] = if thorough { &rots_t } else { &rots_q };
        check_event(ctx, &wires, &pads, rots, ["forward-model event", "hits near the seam", "(nearly) full ring", "random hit pattern"][(i % 4) as usize]);
    });
    // ---- very busy events (thousands of avalanches: any cap, pre-allocation or early exit that depends on how many
    // there are would cut different avalanches in different placements), and events whose pads have different lengths
    // from one chip to the next (requested_samples is per PWB packet)
    ctx.cases("busy-and-uneven", ctx.tier.pick(24, 96), |ctx, i, rng| {
        if i % 6 == 0 {
            let (nc, nt, per) = (20 + rng.usize(8), 36 + rng.usize(10), 5 + rng.usize(3));
            let (wires, pads) = busy_event(&m, rng, nc, nt, per);
            let n = avalanches(ctx, &wires, &pads).map(|a| a.len()).unwrap_or(0);
            ctx.observe_max("most avalanches in one event", n as f64);
            if n > 4096 {
                ctx.count("events with more than 4096 avalanches compared under rotation and mirror");
            }
            let rots = [8usize, 13 + rng.usize(10), 31, 1 + rng.usize(7)];
            check_event(ctx, &wires, &pads, &rots, "very busy event");
        } else {
            // several blocks of wires (random occupancy, or blocks near the seam), many hits, late ones included
            let occ = occupancy(rng, if i % 2 == 0 { 0 } else { 4 });
            let nh = 12 + rng.usize(24);
            let (mut wires, mut pads) = random_hits(&m, rng, &occ, nh, 300, 1.0, true);
            // wires too: every ADC packet has its own number of samples
            for (w, s) in wires.iter_mut() {
                let l = *rng.pick(&[300usize, 300, 300, 260, 200, 150]);
                if *w % 3 != 0 {
                    s.truncate(l);
                }
            }
            // pads are cut chip by chip (blocks of rows) to their own length
            let lens: Vec<usize> = (0..64).map(|_| *rng.pick(&[300usize, 300, 250, 200, 150, 100, 60])).collect();
            for (_, r, s) in pads.iter_mut() {
                s.truncate(lens[*r / 9]);
            }
            let rots: &[usize] = if thorough { &rots_t } else { &rots_q };
            check_event(ctx, &wires, &pads, rots, "pads of different lengths");
        }
    });
    // ---- deterministic witness of KF2: two exactly tied pad hits in one column and time bin
    ctx.cases("kf2-witness", 1, |ctx, _i, _rng| {
        let k = 40;
        let col = 5;
        let mut wires: Wires = Vec::new();
        for (w, a) in [(col * 8 + 8 + 1, 100.0), (col * 8 + 8 + 5, 60.0)] {
            let mut s = vec![0.0; 200];
            for (j, r) in m.wr.iter().enumerate() {
                if k + j < 200 {
                    s[k + j] += a * r;
                }
            }
            wires.push((w % 256, s));
        }
        let mut pads: Pads = Vec::new();
        for row0 in [101usize, 301] {
            for (dr, wgt) in [(-1i64, 0.5), (0, 1.0), (1, 0.5)] {
                let mut s = vec![0.0; 200];
                for (j, r) in m.pr.iter().enumerate() {
                    if k + j < 200 {
                        s[k + j] += 600.0 * wgt * r;
                    }
                }
                pads.push((col, (row0 as i64 + dr) as usize, s));
            }
        }
        check_event(ctx, &wires, &pads, &[3], "KF2 witness (exact pad-amplitude tie)");
    });
    // ---- (c) hook-free: the same relation through banks under the simulation run number
    let inv = crate::maps::inverse(u32::MAX);
    let n = ctx.tier.pick(24, 600);
    ctx.cases("banks", n, |ctx, i, rng| {
        let occ = occupancy(rng, [4u64, 5, 1][(i % 3) as usize]);
        let nh = 2 + rng.usize(8);
        let (wires, pads) = random_hits(&m, rng, &occ, nh, 250, 1.0, true);
        let build = |w: &Wires, p: &Pads| -> Option<Vec<Avalanche>> {
            let mut banks = Vec::new();
            for (wi, s) in w {
                let mut raw = vec![3000i16; 100];
                raw.extend(s.iter().map(|x| (3000.0 + x).round().clamp(-32768.0, 32767.0) as i16));
                banks.push(crate::event::wire_bank(&inv, *wi, raw));
            }
            let mut pm = std::collections::BTreeMap::new();
            for (c, r, s) in p {
                let mut raw = vec![1725i16; 100];
                raw.extend(s.iter().map(|x| (1725.0 + x).round().clamp(-32768.0, 32767.0) as i16));
                pm.insert((*c, *r), raw);
            }
            banks.extend(crate::event::pad_banks(&inv, &pm, 1400));
            banks.push(crate::event::trg_bank(1));
            alpha_g_physics::MainEvent::try_from_banks(u32::MAX, banks.iter().map(|(n, d)| (&n[..], &d[..]))).ok().map(|e| e.avalanches())
        };
        ctx.eval();
        let Ok(Some(base)) = guard(|| build(&wires, &pads)) else {
            ctx.count("bank route: events that did not build (skipped)");
            return;
        };
        let mut kb: Vec<_> = base.iter().map(key).collect();
        kb.sort();
        for rot in [1usize, 9, 31] {
            ctx.eval();
            let (w2, p2) = rotate(&wires, &pads, rot);
            let Ok(Some(out)) = guard(|| build(&w2, &p2)) else {
                ctx.violation("bank route: rotated event does not build", format!("rotation {}", rot), json!({}));
                return;
            };
            let mut ko: Vec<_> = out.iter().map(|a| { let k = key(a); (k.0, (k.1 + 256 - 8 * rot) % 256, k.2, k.3, k.4) }).collect();
            ko.sort();
            ctx.count("bank route: rotations compared");
            if ko != kb {
                if wires.len() == 256 {
                    ctx.violation(KF1, "bank route".into(), json!({}));
                } else {
                    ctx.violation("rotation changes the avalanche multiset", format!("bank route, rotation {}: {} vs {} avalanches", rot, kb.len(), ko.len()), json!({"rotation": rot, "event": describe(&wires, &pads)}));
                    return;
                }
            } else if !kb.is_empty() {
                ctx.count("bank route: rotations with avalanches identical");
            }
        }
    });
    ctx.require("wire-deconvolution rotations compared, occupancy < 252", 200);
    ctx.require("placements with a merged seam block (first > last)", 20);
    ctx.require("forward-model event: rotations compared", 8);
    ctx.require("bank route: rotations with avalanches identical", 5);
}
