//! C02 – ADC packet decoding is exact: differential monitor against the reference decoder,
//! accessor comparison and re-encoding, over the decision table of the quantifier.
use crate::core::*;
use crate::enc::*;
use crate::refs::*;
use serde_json::json;

pub fn prop() -> Prop {
    Prop {
        id: "C02",
        level: "exploration",
        rule: "decision-table enumeration (length class x suppression x keep_bit x keep_last x requested_samples x sample count x content x baseline), byte sweeps of every header byte, and random single/multi-field mutations of accepted packets; each case is decoded by the library and by an independent reference decoder, accepted packets are compared accessor by accessor and re-encoded. Non-trivial = distinct (hash of bytes) inputs that pass type/version/module/channel and have length 16 or >= 36, i.e. reach the consistency ladder. Also: sample counts 32 766..131 072 against 16-bit requested_samples values; exact negative means; every decode repeated from an odd address (alignment independence); history independence (near-miss MACs right after a successful decode, fresh-thread comparison). Round 5: every requested_samples value 0..=65535 against waveforms of 64..5 000 samples, suppression off / on; header / footer fields at source constants jointly with one more bit / byte. Round 7: every keep_last 34..=4095 with exactly enough samples, one too few and one more, suppression off / on. Round 8: slices of 0..=40 bytes ending in each footer combination (only the 16-byte form is a short packet).",
        assumptions: &["the reference decoder (harness/src/refs.rs::adc_ref) transcribes the property statement correctly", "the independent encoder writes the documented big-endian layout"],
        profiles: both,
        shards: shards16,
        no_progress_cpu_s: Some(60),
        run,
        finalize: None,
    }
}

pub fn check(ctx: &mut Ctx, b: &[u8], what: &str) {
    ctx.eval();
    let r = adc_ref(b);
    let l = match guard(|| adc_lib(b)) {
        Ok(l) => l,
        Err(p) => {
            // a panic is reported under C01 too; here it is a disagreement (no decision returned)
            ctx.panic_violation("AdcV3Packet::try_from", &p, json!({"bytes": hex(b), "what": what}));
            return;
        }
    };
    if b.len() >= 16 && b[0] == 1 && b[1] == 3 && b[4] <= 7 && (b[5] <= 15 || (128..=159).contains(&b[5])) && (b.len() == 16 || b.len() >= 36) {
        ctx.nontrivial_bytes(b);
    }
    {
        let m = Misaligned::new(b);
        match guard(|| adc_lib(m.slice())) {
            Ok(lm) if lm == l => {}
            Ok(_) => {
                ctx.violation("decoding depends on the alignment of the input slice", format!("{}: the same bytes at an odd address decode differently", what), json!({"bytes": hex(b)}));
                return;
            }
            Err(p) => {
                ctx.panic_violation("AdcV3Packet::try_from (odd address)", &p, json!({"bytes": hex(b)}));
                return;
            }
        }
    }
    match (&l, &r) {
        (Some(_), Some(_)) => ctx.count("accepted by both"),
        (None, None) => ctx.count("rejected by both"),
        (Some(_), None) => {
            ctx.violation("malformed packet accepted", format!("library accepts, reference rejects ({}) len={} rs={}", what, b.len(), if b.len() >= 8 { u16::from_be_bytes([b[6], b[7]]) } else { 0 }), json!({"bytes": hex(b)}));
            return;
        }
        (None, Some(_)) => {
            ctx.violation("well-formed packet rejected", format!("library rejects, reference accepts ({}) len={}", what, b.len()), json!({"bytes": hex(b)}));
            return;
        }
    }
    if let (Some(l), Some(r)) = (l, r) {
        if l != r {
            ctx.violation("accessor differs from stored field", format!("lib {:?}\nref {:?}", short(&l), short(&r)), json!({"bytes": hex(b)}));
            return;
        }
        let n = b.len();
        let hi = b[n - 4] >> 6;
        if adc_reencode(&l, hi) != b {
            ctx.violation("re-encoding accessors does not reproduce input", format!("len={}", n), json!({"bytes": hex(b)}));
        } else {
            ctx.count("re-encoded identically");
        }
        // the version-agnostic wrapper must agree
        let w = guard(|| alpha_g_detector::alpha16::AdcPacket::try_from(b).ok().map(|p| (p.waveform().to_vec(), p.requested_samples(), p.keep_last(), p.suppression_baseline())));
        match w {
            Ok(Some((wf, rs, kl, sb))) if wf == l.wf && rs == l.rs as usize && kl == Some(l.kl as usize) && sb == Some(l.base) => {}
            _ => ctx.violation("AdcPacket wrapper disagrees with AdcV3Packet", String::new(), json!({"bytes": hex(b)})),
        }
        if l.sup {
            ctx.count("accepted with suppression on")
        }
        if l.mac.is_none() {
            ctx.count("accepted 16-byte suppressed form")
        }
    }
}
/// decision and fields against the reference only (for the very large enumerations)
fn check_light(ctx: &mut Ctx, b: &[u8], what: &str) {
    ctx.eval();
    let r = adc_ref(b);
    match guard(|| adc_lib(b)) {
        Err(p) => ctx.panic_violation("AdcV3Packet::try_from", &p, json!({"bytes": hex_short(b), "what": what})),
        Ok(Some(_)) if r.is_none() => ctx.violation("malformed packet accepted", format!("library accepts, reference rejects ({}) len={} rs={}", what, b.len(), if b.len() >= 8 { u16::from_be_bytes([b[6], b[7]]) } else { 0 }), json!({"bytes": hex_short(b)})),
        Ok(None) if r.is_some() => ctx.violation("well-formed packet rejected", format!("library rejects, reference accepts ({}) len={}", what, b.len()), json!({"bytes": hex_short(b)})),
        Ok(Some(l)) => {
            if Some(&l) != r.as_ref() {
                ctx.violation("accessor differs from stored field", format!("lib {:?}\nref {:?}", short(&l), short(r.as_ref().unwrap())), json!({"bytes": hex_short(b)}));
            }
            ctx.count("accepted by both (sweeps)");
        }
        Ok(None) => {}
    }
}
fn short(f: &AdcF) -> String {
    format!("at={} mod={} ch={} rs={} ts={:#x} mac={:?} toff={:?} build={:?} n={} base={} kl={} kb={} sup={}", f.at, f.module, f.chan, f.rs, f.ts, f.mac, f.toff, f.build, f.wf.len(), f.base, f.kl, f.kb, f.sup)
}

pub fn content(rng: &mut Rng, kind: usize, n: usize) -> Vec<i16> {
    (0..n)
        .map(|i| match kind {
            0 => 3000,
            1 => (-(i as i64) - 1) as i16,
            2 => [i16::MIN, i16::MAX, -1, 0][i % 4],
            3 => rng.next() as i16,
            4 => i16::MIN,
            5 => i16::MAX,
            // mean of the first 64 just below / above an integer, negative (floor != trunc)
            6 => {
                if i == 0 {
                    -2
                } else {
                    -1
                }
            }
            7 => {
                if i == 63 {
                    1
                } else {
                    0
                }
            }
            8 => -1,
            9 => -(1 + (n % 7) as i16),
            10 => {
                // sum of the first 64 is an exact negative multiple of 64
                if i < 32 {
                    -3
                } else {
                    1
                }
            }
            _ => -((rng.next() % 5) as i16),
        })
        .collect()
}

fn run(ctx: &mut Ctx) {
    // ---- decision table
    let sups = [false, true];
    let nsamps: Vec<usize> = vec![0, 1, 62, 63, 64, 65, 66, 67, 68, 69, 70, 100, 697];
    let kls: Vec<u16> = vec![0, 1, 2, 33, 34, 35, 36, 37, 50, 51, 349, 350, 351, 2047, 4095];
    let mut cells = Vec::new();
    for &sup in &sups {
        for &kb in &sups {
            for &n in &nsamps {
                for &kl in &kls {
                    cells.push((sup, kb, n, kl));
                }
            }
        }
    }
    // ---- every requested_samples value 0..=65535 against waveforms of several lengths (also > 256 and > 4096 samples:
    // a count held in a narrower type aliases there), suppression off / on
    ctx.cases("requested-samples-sweep", 16 * 10, |ctx, i, rng| {
        let n = [64usize, 70, 300, 697, 5000][(i / 32) as usize];
        let sup = (i / 16) % 2 == 1;
        let part = i % 16;
        let mut a = Adc::simple(rng.pick(&A16_MACS).1, rng.below(32) as u8, content(rng, 3, n));
        if sup {
            a.suppression = true;
            a.keep_bit = true;
            a.keep_last = 34 + rng.below(((n + 4) / 2 - 33).max(1) as u64) as u16;
        }
        let mut b = a.encode();
        for rs in part * 4096..(part + 1) * 4096 {
            b[6..8].copy_from_slice(&(rs as u16).to_be_bytes());
            check_light(ctx, &b, "requested_samples sweep");
        }
        ctx.count_n("requested_samples values swept", 4096);
    });
    // ---- slices of 0..=40 bytes cut from / built like a valid packet whose LAST four bytes read as each footer
    // combination (suppression on / off, keep_bit, keep_last 0 / 34): only the 16-byte form is a short packet
    ctx.cases("short-lengths", 41, |ctx, len, rng| {
        let len = len as usize;
        let a = Adc::simple(rng.pick(&A16_MACS).1, rng.below(32) as u8, content(rng, 3, 70));
        let long = a.encode();
        for (sup, kb, kl) in [(true, false, 0u16), (true, true, 34), (false, false, 0), (false, true, 34), (true, true, 0), (true, false, 34)] {
            let mut x = a.clone();
            x.suppression = sup;
            x.keep_bit = kb;
            x.keep_last = kl;
            let foot = x.footer();
            for base in [&long[..len.min(long.len())], &x.encode_short()[..len.min(16)]] {
                let mut b = base.to_vec();
                b.resize(len, 0);
                if len >= 4 {
                    b[len - 4..].copy_from_slice(&foot);
                }
                check(ctx, &b, "short slice ending in a footer");
                ctx.count("short slices ending in each footer combination");
            }
        }
    });
    // ---- every keep_last 34..=4095 with exactly enough samples, one too few and one more, suppression off (keep_bit set)
    // and on: the 12-bit field is compared at full width and against the right bound everywhere
    ctx.cases("keep-last-sweep", 64, |ctx, part, rng| {
        for kl in (34u16..=4095).filter(|k| *k as u64 % 64 == part) {
            let min_n = (2 * kl as usize).saturating_sub(3).max(64); // n > (kl-1)*2-2
            for n in [min_n - 1, min_n, min_n + 1] {
                if n < 64 {
                    continue;
                }
                for sup in [false, true] {
                    let mut a = Adc::simple(rng.pick(&A16_MACS).1, rng.below(32) as u8, content(rng, 3, n));
                    a.keep_bit = true;
                    a.keep_last = kl;
                    a.suppression = sup;
                    if sup {
                        a.requested_samples = (n as u16).saturating_add(2 + rng.below(3) as u16);
                    }
                    check_light(ctx, &a.encode(), "keep_last sweep");
                    ctx.count("keep_last values x sample counts swept");
                }
            }
        }
    });
    // ---- one header / footer field at a constant from the library's sources, jointly with one more bit / byte changed
    let dict = super::source_dictionary("detector/src");
    ctx.cases("dictionary-pairs", 40 * 2, |ctx, k, rng| {
        let sup = k >= 40;
        let off = (k % 40) as usize;
        let mut a = Adc::simple(rng.pick(&A16_MACS).1, rng.below(32) as u8, content(rng, 3, 70));
        if sup {
            a.suppression = true;
            a.keep_bit = true;
            a.keep_last = 35;
            a.requested_samples = 74;
        }
        let seed = a.encode();
        let l = seed.len();
        let off = if off < 36 { off } else { l - 40 + off };
        let mut n = super::dict_pairs(&seed, off, 0..36, &dict, |_| {}, |b| check_light(ctx, b, "field at a source constant + one more header change"));
        n += super::dict_pairs(&seed, off, l - 4..l, &dict, |_| {}, |b| check_light(ctx, b, "field at a source constant + one footer change"));
        ctx.count_n("inputs with a field at a source constant", n);
    });
    let ncont = ctx.tier.pick(6, 12);
    ctx.cases("table", cells.len() as u64, |ctx, i, rng| {
        let (sup, kb, n, kl) = cells[i as usize];
        // sample counts around last_index as well
        let li = (kl as i64 - 1) * 2 - 2;
        let mut ns = vec![n];
        if kl >= 34 && kl <= 400 && n == 64 {
            for d in [-1i64, 0, 1, 2] {
                ns.push((li + d).max(0) as usize);
            }
        }
        for n in ns {
            for c in 0..ncont {
                let wf = content(rng, [3usize, 4, 8, 10, 6, 2, 0, 1, 5, 7, 9, 11][c], n);
                for rs_kind in 0..10 {
                    let rs: u16 = match rs_kind {
                        0 => 0,
                        1 => 1,
                        2 => 2,
                        3 => 3,
                        4 => (n as i64 + 1).clamp(0, 65535) as u16,
                        5 => (n as i64 + 2).clamp(0, 65535) as u16,
                        6 => (n as i64 + 3).clamp(0, 65535) as u16,
                        7 => (n as i64 + 1000).clamp(0, 65535) as u16,
                        8 => 65535,
                        _ => (n as i64 - 1).clamp(0, 65535) as u16,
                    };
                    for bfix in [0i16, 1, -1] {
                        let mut a = Adc::simple(A16_MACS[(i as usize + c) % 8].1, (i % 32) as u8, wf.clone());
                        a.suppression = sup;
                        a.keep_bit = kb;
                        a.keep_last = kl;
                        a.requested_samples = rs;
                        a.footer_hi_bits = (rs_kind % 4) as u8;
                        if bfix != 0 {
                            a.baseline = Some(if n >= 64 { floor_mean64(&wf).wrapping_add(bfix) } else { bfix });
                        }
                        let b = a.encode();
                        check(ctx, &b, "table");
                        if n == 0 {
                            check(ctx, &a.encode_short(), "table-short");
                        }
                    }
                }
            }
        }
    });
    // ---- every value of every header byte / footer byte of accepted seeds
    ctx.cases("bytesweep", 6, |ctx, i, rng| {
        let wf = content(rng, 3, 64 + (i as usize) * 7);
        let mut a = Adc::simple(A16_MACS[i as usize].1, 5 + i as u8, wf);
        if i % 2 == 1 {
            a.suppression = true;
            a.keep_bit = true;
            a.keep_last = 34;
            a.requested_samples += 10;
        }
        let seeds = [a.encode(), {
            let mut s = a.clone();
            s.suppression = true;
            s.keep_bit = false;
            s.keep_last = 0;
            s.encode_short()
        }];
        for seed in seeds {
            check(ctx, &seed, "seed");
            let n = seed.len();
            let positions: Vec<usize> = (0..32.min(n)).chain(n - 4..n).collect();
            for pos in positions {
                for v in 0..=255u8 {
                    let mut b = seed.clone();
                    b[pos] = v;
                    check(ctx, &b, "bytesweep");
                }
            }
            // truncations / extensions
            for l in 0..n {
                check(ctx, &seed[..l], "truncate");
            }
            for e in 1..=8 {
                let mut b = seed.clone();
                b.extend(rng.bytes(e));
                check(ctx, &b, "extend");
            }
        }
    });
    // ---- MAC table +- one byte, module/channel sweeps with re-fixed footers
    ctx.cases("mac", 8, |ctx, i, rng| {
        let wf = content(rng, 3, 70);
        for pos in 0..6 {
            for d in [1u8, 255, 128] {
                let mut mac = A16_MACS[i as usize].1;
                mac[pos] = mac[pos].wrapping_add(d);
                check(ctx, &Adc::simple(mac, 3, wf.clone()).encode(), "mac+-");
            }
        }
        for m in 0..=255u8 {
            let mut a = Adc::simple(A16_MACS[i as usize].1, 3, wf.clone());
            a.module_id = m;
            check(ctx, &a.encode(), "module");
            let mut a = Adc::simple(A16_MACS[i as usize].1, 3, wf.clone());
            a.channel_byte = m;
            check(ctx, &a.encode(), "channel");
        }
    });
    // ---- sample counts at and beyond the 16-bit limits (requested_samples is a 16-bit field, the slice is not)
    ctx.cases("huge", ctx.tier.pick(12, 120), |ctx, i, rng| {
        let ns = [32766usize, 32767, 32768, 65533, 65534, 65535, 65536, 65537, 65536 + 64, 65536 + 697, 131072, 70000];
        let n = ns[(i as usize) % ns.len()];
        let kind = rng.usize(12);
        let wf = content(rng, kind, n);
        for (sup, kb, kl) in [(false, false, 0u16), (true, true, 34), (false, true, 34), (true, true, 4095)] {
            for rs in [699u16, (n as u64 + 2).min(65535) as u16, 65535, ((n + 2) & 0xFFFF) as u16, (n & 0xFFFF) as u16, 2, 0] {
                let mut a = Adc::simple(A16_MACS[(i % 8) as usize].1, 9, wf.clone());
                a.suppression = sup;
                a.keep_bit = kb;
                a.keep_last = kl;
                a.requested_samples = rs;
                check(ctx, &a.encode(), "huge sample count");
            }
        }
        ctx.count("packets with >= 32766 samples decoded");
    });
    // ---- history independence: what was decoded before must not matter (a memo keyed by a lossy digest of the MAC
    // would). After a successful decode of board b: MACs that differ from b's in one byte, or in two bytes by the
    // same xor delta, then the valid packet again; every decision is still compared with the reference.
    ctx.cases("history", 8, |ctx, i, rng| {
        let wf = content(rng, 3, 70);
        let good = Adc::simple(A16_MACS[i as usize].1, 3, wf.clone()).encode();
        for a in 0..6 {
            for b in a..6 {
                for d in [1u8, 0x40, 0x80, 0xFF, 0x0F] {
                    check(ctx, &good, "history: valid packet first");
                    let mut mac = A16_MACS[i as usize].1;
                    mac[a] ^= d;
                    if b != a {
                        mac[b] ^= d;
                    }
                    check(ctx, &Adc::simple(mac, 3, wf.clone()).encode(), "history: near-miss MAC right after a success");
                }
            }
        }
        // another board's packet in between, then the first again
        let other = Adc::simple(A16_MACS[(i as usize + 3) % 8].1, 3, wf.clone()).encode();
        check(ctx, &other, "history: other board");
        check(ctx, &good, "history: first board again");
        // the same decisions from a thread without any history
        let (g2, o2) = (good.clone(), other.clone());
        match fresh_thread(move || (adc_lib(&g2), adc_lib(&o2))) {
            Ok((a, b)) if a == adc_lib(&good) && b == adc_lib(&other) => ctx.count("fresh-thread decodes identical to in-history decodes"),
            _ => ctx.violation("decode result depends on what was decoded before (differs from a fresh thread)", String::new(), json!({"bytes": hex(&good)})),
        }
    });
    // ---- random mutations of (mostly accepted) packets
    let nrand = ctx.tier.pick(120_000, 30_000_000);
    ctx.cases("random", nrand, |ctx, _i, rng| {
        let n = 64 + rng.usize(40) + if rng.chance(0.05) { rng.usize(700) } else { 0 };
        let kind = rng.usize(12);
        let wf = content(rng, kind, n);
        let mut a = Adc::simple(rng.pick(&A16_MACS).1, rng.below(32) as u8, wf);
        if rng.chance(0.3) {
            a.channel_byte = rng.below(16) as u8;
        }
        a.accepted_trigger = rng.next() as u16;
        a.event_timestamp = rng.next();
        a.trigger_offset = rng.next() as i32;
        a.build_timestamp = rng.next() as u32;
        a.module_id = rng.below(8) as u8;
        a.suppression = rng.bool();
        a.keep_bit = a.suppression || rng.bool();
        a.keep_last = if a.keep_bit { 34 + rng.below(((n + 4) / 2 - 33).max(1) as u64) as u16 } else { 0 };
        if a.suppression {
            a.requested_samples = (n as u16 + 2).saturating_add(rng.below(600) as u16);
        }
        a.footer_hi_bits = rng.below(4) as u8;
        if ctx.samples.is_empty() {
            ctx.sample(json!({"kind": "random near-valid ADC packet", "n_samples": n, "suppression": a.suppression, "keep_bit": a.keep_bit, "keep_last": a.keep_last, "requested_samples": a.requested_samples, "bytes": hex_short(&a.encode())}));
        }
        // single-field mutations
        match rng.below(14) {
            0 => a.keep_last = rng.below(4096) as u16,
            1 => a.keep_bit = !a.keep_bit,
            2 => a.suppression = !a.suppression,
            3 => a.requested_samples = *rng.pick(&[0u16, 1, 2, 3, 65535, n as u16, n as u16 + 1, n as u16 + 2, n as u16 + 3]),
            4 => a.baseline = Some(floor_mean64(&a.waveform).wrapping_add(*rng.pick(&[1i16, -1, 64, -64]))),
            5 => a.zero_bytes = [rng.next() as u8, rng.next() as u8],
            6 => a.ptype = rng.next() as u8,
            7 => a.version = rng.next() as u8,
            _ => {}
        }
        let mut b = a.encode();
        match rng.below(10) {
            0 => {
                let k = 1 + rng.usize(3);
                for _ in 0..k {
                    let i = rng.usize(b.len());
                    b[i] = rng.next() as u8;
                }
            }
            1 => {
                let l = rng.usize(b.len() + 1);
                b.truncate(l);
            }
            2 => b.push(rng.next() as u8),
            _ => {}
        }
        check(ctx, &b, "random");
    });
    ctx.require("accepted by both", 100);
    ctx.require("rejected by both", 100);
}
