//! C05 – PWB packet decoding is exact and every sent channel has its full waveform.
use crate::core::*;
use crate::enc::*;
use crate::refs::*;
use alpha_g_detector::padwing::{PwbPacket, PwbV2Packet};
use serde_json::json;

pub fn prop() -> Prop {
    Prop {
        id: "C05",
        level: "exploration",
        rule: "payloads from an independent PWB v2 encoder: all 79 single-channel masks and all 79 all-but-one masks x requested_samples {0,1,2,3,510,511}, full mask, random masks, rs {512,600,65535}, every value 0..=255 of version/chip/compression/trigger bytes and bytes 18-19, last_sca_cell {0,511,512}, bit 79 of each mask, per-block index off by one / swapped blocks / wrong size field, non-zero pad word, end-marker variants, length +-1..4, MAC variants, random byte mutations. Library vs reference decision; accepted packets compared accessor by accessor (channels_sent, channels_over_threshold, waveform_at for all 79 ids) and re-encoded. Non-trivial = distinct inputs passing the fixed-header checks (version, chip, compression, trigger, MAC, zero bytes). Also: every pair of sent channels (3 081 masks), three-channel masks, bad end markers at sample counts 0/1/2 and with an empty mask, block size / index fields with high bits set, alignment independence. Round 4: whole blocks too many / too few (copies, well-formed blocks of channels in / not in the mask, zero and 0xCC filler; 1..256 blocks; front, middle, end); every mask bit toggled with the blocks unchanged; every pair of numeric header fields over 8 boundary values each (and trigger delay against trigger timestamp: smaller, equal, larger); header fields at source constants jointly with one more header bit / byte. Round 5: both 16-bit words heading every block in other encodings of their value (negated, complemented, byte-swapped, sign bit). Round 6: masks of every population count 0..=79 (reset channels in / out together); sample values that look like structure (0xCCCC runs, header-like words). Round 7: the forbidden bit 79 alone in either mask; bytes 18-19 non-zero next to boundary values of the 48-bit timestamp.",
        assumptions: &["reference PWB v2 codec and the readout-index kind table (harness/src/refs.rs) transcribe the statement"],
        profiles: both,
        shards: shards16,
        no_progress_cpu_s: Some(60),
        run,
        finalize: None,
    }
}

pub fn check(ctx: &mut Ctx, b: &[u8], what: &str) {
    ctx.eval();
    let r = pwb_ref(b);
    let l = match guard(|| PwbV2Packet::try_from(b)) {
        Ok(l) => l,
        Err(p) => {
            ctx.panic_violation("PwbV2Packet::try_from", &p, json!({"bytes": hex(b), "what": what}));
            return;
        }
    };
    if b.len() >= 20 && b[0] == 2 && (b'A'..=b'D').contains(&b[1]) && b[2] == 0 && [0, 1, 3].contains(&b[3]) && PWB_BOARDS.iter().any(|(_, m)| m[..] == b[4..10]) && b[18] == 0 && b[19] == 0 {
        ctx.nontrivial_bytes(b);
    }
    {
        let m = Misaligned::new(b);
        let same = match (guard(|| PwbV2Packet::try_from(m.slice())), &l) {
            (Ok(Ok(a)), Ok(b2)) => format!("{:?}", a) == format!("{:?}", b2),
            (Ok(Err(_)), Err(_)) => true,
            _ => false,
        };
        if !same {
            ctx.violation("decoding depends on the alignment of the input slice", what.to_string(), json!({"bytes": hex(b)}));
            return;
        }
    }
    match (&l, &r) {
        (Ok(_), None) => {
            ctx.violation("ill-formed PWB payload accepted", format!("{} len={}", what, b.len()), json!({"bytes": hex(b)}));
        }
        (Err(e), Some(_)) => {
            ctx.violation("well-formed PWB payload rejected", format!("{} len={} ({})", what, b.len(), e), json!({"bytes": hex(b)}));
        }
        (Err(e), None) => {
            ctx.count("rejected by both");
            let v = format!("{:?}", e);
            let v = v.split(|c: char| !c.is_alphanumeric()).next().unwrap_or("").to_string();
            ctx.count(&format!("error variant {}", v));
        }
        (Ok(p), Some(r)) => {
            ctx.count("accepted by both");
            match guard(|| pwb_accessors_match(p, r)) {
                Ok(Ok(())) => {}
                Ok(Err(which)) => ctx.violation(&format!("accessor {} differs from payload", which.split(' ').next().unwrap_or("")), format!("{}: {}", what, which), json!({"bytes": hex(b)})),
                Err(pn) => ctx.panic_violation("PwbV2Packet accessors", &pn, json!({"bytes": hex(b)})),
            }
            if r.encode() != b {
                ctx.violation("re-encoding does not reproduce the payload", what.to_string(), json!({"bytes": hex(b)}));
            }
            match guard(|| PwbPacket::try_from(b).map(|w| (w.requested_samples(), w.channels_sent().len()))) {
                Ok(Ok((rs, n))) if rs == r.requested_samples as usize && n == r.channels.len() => {}
                _ => ctx.violation("PwbPacket wrapper disagrees", what.to_string(), json!({"bytes": hex(b)})),
            }
        }
    }
}

/// decision, accessors and round trip against the reference only (for the very large enumerations)
fn check_light(ctx: &mut Ctx, b: &[u8], what: &str) {
    ctx.eval();
    let r = pwb_ref(b);
    match guard(|| PwbV2Packet::try_from(b).map(|p| r.as_ref().map(|r| pwb_accessors_match(&p, r)))) {
        Err(p) => ctx.panic_violation("PwbV2Packet::try_from", &p, json!({"bytes": hex(b), "what": what})),
        Ok(Ok(None)) => ctx.violation("ill-formed PWB payload accepted", format!("{} len={}", what, b.len()), json!({"bytes": hex(b)})),
        Ok(Err(e)) if r.is_some() => ctx.violation("well-formed PWB payload rejected", format!("{} len={} ({})", what, b.len(), e), json!({"bytes": hex(b)})),
        Ok(Ok(Some(m))) => {
            if let Err(which) = m {
                ctx.violation(&format!("accessor {} differs from payload", which.split(' ').next().unwrap_or("")), format!("{}: {}", what, which), json!({"bytes": hex(b)}));
            } else if r.unwrap().encode() != b {
                ctx.violation("re-encoding does not reproduce the payload", what.to_string(), json!({"bytes": hex(b)}));
            }
            ctx.count("accepted by both (sweeps)");
        }
        Ok(Err(_)) => {}
    }
}

pub fn samples(rng: &mut Rng, n: u16, kind: u64) -> Vec<i16> {
    (0..n)
        .map(|i| match kind % 5 {
            // sample values that look like structure: the end marker 0xCCCC, runs of it, small "header-like" words
            4 => *rng.pick(&[-13108i16, -13108, -13108, 2, 3, 0, i as i16 + 1, n as i16, 0x4142, -13107, -13109]),
            0 => rng.next() as i16,
            1 => [i16::MIN, i16::MAX, 0, -1][i as usize % 4],
            2 => 1725 + (rng.gauss() * 4.0) as i16,
            _ => i as i16,
        })
        .collect()
}

fn run(ctx: &mut Ctx) {
    let macs: Vec<[u8; 6]> = PWB_BOARDS.iter().map(|b| b.1).collect();
    let rss = [0u16, 1, 2, 3, 510, 511];
    // single-channel and all-but-one masks
    ctx.cases("masks", 79 * 2, |ctx, i, rng| {
        let bit = (i % 79) as u16 + 1;
        for &rs in &rss {
            let chans: Vec<(u16, Vec<i16>)> = if i < 79 { vec![(bit, samples(rng, rs, i))] } else { (1..=79).filter(|c| *c != bit).map(|c| (c, samples(rng, rs, i))).collect() };
            if i >= 79 && rs >= 510 && ctx.quick() && bit % 8 != 0 {
                continue;
            }
            let mut p = Pwb::new(['A', 'B', 'C', 'D'][(i % 4) as usize], *rng.pick(&macs), rs, chans);
            p.threshold_mask = (rng.next() as u128 | ((rng.next() as u128) << 64)) & ((1u128 << 79) - 1);
            p.trigger_source = [0, 1, 3][(i % 3) as usize];
            p.trigger_timestamp = rng.next() & 0xFFFF_FFFF_FFFF;
            p.last_sca_cell = [0, 511, 300][(i % 3) as usize];
            let b = p.encode();
            if i == 5 && rs == 3 {
                ctx.sample(json!({"kind": "single-channel PWB payload", "readout_index": bit, "requested_samples": rs, "bytes": hex_short(&b)}));
            }
            check(ctx, &b, "mask");
        }
    });
    // every mask with exactly two channels (block stride / end-marker arithmetic special-cases small counts)
    ctx.cases("pairs", 79, |ctx, i, rng| {
        let a = i as u16 + 1;
        for b in a + 1..=79 {
            let rs = *rng.pick(&[0u16, 1, 2, 3, 4, 5, 511]);
            let mut p = Pwb::new(['A', 'B', 'C', 'D'][(b % 4) as usize], *rng.pick(&macs), rs, vec![(a, samples(rng, rs, 0)), (b, samples(rng, rs, 1))]);
            p.threshold_mask = 1u128 << (b - 1);
            check(ctx, &p.encode(), "two channels");
            if b == a + 1 {
                // bad end marker for every small sample count, all four marker bytes
                for rs in [0u16, 1, 2] {
                    for k in 0..4 {
                        let mut q = Pwb::new('A', macs[0], rs, vec![(a, samples(rng, rs, 0)), (b, samples(rng, rs, 1))]);
                        q.end_marker[k] = 0xCD;
                        check(ctx, &q.encode(), "bad end marker, small sample count");
                        let mut q = Pwb::new('A', macs[0], rs, vec![]);
                        q.end_marker[k] = 0;
                        check(ctx, &q.encode(), "bad end marker, empty mask");
                    }
                }
            }
        }
        // three channels as well
        let c = 1 + (i as u16 + 40) % 79;
        let mut ids = vec![a, c, 1 + (i as u16 + 11) % 79];
        ids.sort();
        ids.dedup();
        let p = Pwb::new('B', macs[1], 3, ids.iter().map(|c| (*c, samples(rng, 3, 0))).collect());
        check(ctx, &p.encode(), "three channels");
    });
    ctx.cases("structured", 32, |ctx, i, rng| {
        let mac = macs[(i as usize * 7) % macs.len()];
        // full mask, over-large sample counts
        for rs in [0u16, 1, 2, 5, 511, 512, 600, 65535] {
            let eff = rs.min(if ctx.quick() { 64 } else { 511 });
            let mut p = Pwb::new('A', mac, eff, (1..=79).map(|c| (c, samples(rng, eff, i))).collect());
            if rs > 511 {
                p.requested_samples = rs;
            }
            check(ctx, &p.encode(), "full mask");
        }
        let seed = Pwb::new('C', mac, 3 + (i % 2) as u16, vec![(5, samples(rng, 3 + (i % 2) as u16, 0)), (16, samples(rng, 3 + (i % 2) as u16, 1)), (70, samples(rng, 3 + (i % 2) as u16, 2))]);
        let sb = seed.encode();
        check(ctx, &sb, "seed");
        // every value of each of the first 24 bytes and mask bytes
        for pos in (0..4).chain(10..24).chain([33usize, 43]) {
            for v in 0..=255u8 {
                let mut b = sb.clone();
                b[pos] = v;
                check(ctx, &b, "header byte sweep");
            }
        }
        for pos in 4..10 {
            for d in [1u8, 255] {
                let mut b = sb.clone();
                b[pos] = b[pos].wrapping_add(d);
                check(ctx, &b, "mac+-1");
            }
        }
        for v in [0u16, 1, 510, 511, 512, 513, 1023, 65535] {
            let mut p = seed.clone();
            p.last_sca_cell = v;
            check(ctx, &p.encode(), "last_sca_cell");
        }
        for which in 0..2 {
            let mut p = seed.clone();
            if which == 0 {
                p.sent_mask |= 1 << 79
            } else {
                p.threshold_mask |= 1 << 79
            }
            check(ctx, &p.encode(), "bit 79");
        }
        // per-block defects
        for k in 0..seed.channels.len() {
            for d in [1i32, -1, 100, 128, 256, 512, 32768] {
                let mut p = seed.clone();
                p.channels[k].0 = (p.channels[k].0 as i32 + d) as u16;
                check(ctx, &p.encode(), "block index off");
            }
            let mut p = seed.clone();
            p.channels.swap(0, k);
            check(ctx, &p.encode(), "blocks swapped");
            // wrong size field inside the block
            let mut b = sb.clone();
            let per = 4 + 2 * seed.requested_samples as usize + if seed.requested_samples % 2 == 1 { 2 } else { 0 };
            let off = 52 + per * k + 2;
            for d in [1u16, 0xFFFF, 512, 1024, 2048, 4096, 8192, 16384, 32768, 0xFE00, 256] {
                let v = u16::from_le_bytes([b[off], b[off + 1]]).wrapping_add(d);
                b[off..off + 2].copy_from_slice(&v.to_le_bytes());
                check(ctx, &b, "block size field");
                b = sb.clone();
            }
            // the two 16-bit words that head the block in every other encoding of their value: negated, complemented,
            // byte-swapped, sign bit set
            for word in 0..2 {
                let o = 52 + per * k + 2 * word;
                let v = u16::from_le_bytes([sb[o], sb[o + 1]]);
                for nv in [v.wrapping_neg(), !v, v.swap_bytes(), v | 0x8000, v.wrapping_neg().wrapping_sub(1), 0u16.wrapping_sub(v).swap_bytes()] {
                    if nv == v {
                        continue;
                    }
                    let mut b = sb.clone();
                    b[o..o + 2].copy_from_slice(&nv.to_le_bytes());
                    check(ctx, &b, "block header word in another encoding of its value");
                }
            }
            if seed.requested_samples % 2 == 1 {
                for j in 0..2 {
                    let mut b = sb.clone();
                    b[52 + per * k + 4 + 2 * seed.requested_samples as usize + j] = 1 + rng.below(255) as u8;
                    check(ctx, &b, "non-zero pad word");
                }
            }
        }
        for k in 0..4 {
            for v in [0u8, 0xCD, 0xCB] {
                let mut p = seed.clone();
                p.end_marker[k] = v;
                check(ctx, &p.encode(), "end marker");
            }
        }
        for cut in 1..=8 {
            check(ctx, &sb[..sb.len() - cut], "truncated");
        }
        for e in 1..=8 {
            let mut b = sb.clone();
            b.extend(vec![0xCC; e]);
            check(ctx, &b, "extended");
        }
        for l in 0..60 {
            check(ctx, &sb[..l.min(sb.len())], "short");
        }
        // mask claims more / fewer channels than blocks
        let mut p = seed.clone();
        p.sent_mask |= 1 << 40;
        check(ctx, &p.encode(), "mask has extra bit");
        let mut p = seed.clone();
        p.sent_mask &= !(1 << 4);
        check(ctx, &p.encode(), "mask misses a bit");
    });
    // ---- masks of every population count 0..=79 (reset / FPN / pad channels in and out at random), sample values that
    // look like structure: what is decided from the *number* of channels or from sample content must not differ
    ctx.cases("popcounts", 80, |ctx, count, rng| {
        for rep in 0..6u64 {
            let rs = [1u16, 2, 3, 4, 8, 511][(rep % 6) as usize];
            if rs == 511 && ctx.quick() && count % 8 != 4 {
                continue;
            }
            let mut ids: Vec<u16> = (1..=79).collect();
            rng.shuffle(&mut ids);
            let mut ids = ids[..count as usize].to_vec();
            // now and then make sure the reset channels (readout 1..=3) are in / out together
            if rep % 3 == 1 {
                ids.retain(|c| *c > 3);
                for c in 1..=3u16 {
                    if ids.len() < count as usize {
                        ids.push(c);
                    }
                }
            }
            ids.sort();
            ids.dedup();
            let p = Pwb::new(['A', 'B', 'C', 'D'][(rep % 4) as usize], *rng.pick(&macs), rs, ids.iter().map(|c| (*c, samples(rng, rs, 4 * (rep % 2) + rep))).collect());
            check(ctx, &p.encode(), "mask of a given population count");
            ctx.count("masks of every population count");
        }
    });
    // ---- whole blocks too many / too few, at every place: the body length is then still "a multiple of the block size
    // plus the marker", so only the exact length equation catches it
    ctx.cases("block-count", 48, |ctx, i, rng| {
        let rs = [0u16, 1, 2, 3, 4, 7, 8, 511][(i % 8) as usize];
        let nch = [1usize, 2, 3, 5, 40, 79][((i / 8) % 6) as usize];
        let mut ids: Vec<u16> = (1..=79).collect();
        rng.shuffle(&mut ids);
        let mut ids = ids[..nch].to_vec();
        ids.sort();
        let seed = Pwb::new(['A', 'B', 'C', 'D'][(i % 4) as usize], *rng.pick(&macs), rs, ids.iter().map(|c| (*c, samples(rng, rs, i))).collect());
        let sb = seed.encode();
        check(ctx, &sb, "seed");
        let per = 4 + 2 * rs as usize + if rs % 2 == 1 { 2 } else { 0 };
        let unused: Vec<u16> = (1..=79).filter(|c| !ids.contains(c)).collect();
        let block = |idx: u16, smp: &[i16]| -> Vec<u8> {
            let mut v = vec![idx as u8, 0];
            v.extend(rs.to_le_bytes());
            for x in smp {
                v.extend(x.to_le_bytes());
            }
            if rs % 2 == 1 {
                v.extend([0, 0]);
            }
            v
        };
        for count in [1usize, 2, 3, 16, 255, 256] {
            if count * per > 70_000 {
                continue;
            }
            for place in 0..=nch.min(3) {
                let at = 52 + per * [0, nch, nch / 2, 1][place].min(nch);
                for kind in 0..5 {
                    let extra: Vec<u8> = match kind {
                        0 => (0..count).flat_map(|_| sb[52 + per * (nch - 1)..52 + per * nch].to_vec()).collect(), // copies of the last block
                        1 if !unused.is_empty() => (0..count).flat_map(|k| block(unused[k % unused.len()], &samples(rng, rs, 2))).collect(), // well-formed blocks of channels not in the mask
                        2 => vec![0u8; count * per],
                        3 => vec![0xCCu8; count * per],
                        4 => (0..count).flat_map(|k| block(ids[k % nch], &samples(rng, rs, 3))).collect(), // well-formed blocks of channels in the mask, again
                        _ => continue,
                    };
                    let mut b = sb.clone();
                    b.splice(at..at, extra);
                    check_light(ctx, &b, "whole blocks too many");
                    ctx.count("inputs with whole blocks too many / too few");
                }
            }
        }
        // blocks missing (mask unchanged), from the front / middle / end
        for drop in 1..=nch.min(3) {
            for at in [0usize, (nch - drop) / 2, nch - drop] {
                let mut b = sb.clone();
                b.drain(52 + per * at..52 + per * (at + drop));
                check_light(ctx, &b, "whole blocks missing");
                ctx.count("inputs with whole blocks too many / too few");
            }
        }
        // mask bits added / removed without touching the blocks
        for k in 0..79u32 {
            let mut p = seed.clone();
            p.sent_mask ^= 1 << k;
            check_light(ctx, &p.encode(), "one mask bit toggled, blocks unchanged");
        }
    });
    // ---- every pair of numeric header fields over boundary values: acceptance does not depend on them, alone or in relation
    ctx.cases("field-pairs", 36, |ctx, i, rng| {
        let rs = [0u16, 3, 4][(i % 3) as usize];
        let seed = Pwb::new('D', *rng.pick(&macs), rs, vec![(5, samples(rng, rs, 0)), (16, samples(rng, rs, 1)), (70, samples(rng, rs, 2))]);
        let fields = 9usize;
        let set = |p: &mut Pwb, f: usize, sel: usize, rng: &mut Rng| {
            let pick = |max: u64, rng: &mut Rng| -> u64 { [0, 1, 2, max / 2, max - 1, max, rng.below(max) + 0, max / 2 + 1][sel] };
            match f {
                0 => p.trigger_delay = pick(0xFFFF, rng) as u16,
                1 => p.trigger_timestamp = pick(0xFFFF_FFFF_FFFF, rng),
                2 => p.last_sca_cell = pick(511, rng) as u16,
                3 => p.event_counter = pick(0xFFFF_FFFF, rng) as u32,
                4 => p.fifo_max_depth = pick(0xFFFF, rng) as u16,
                5 => p.wdepth = pick(0xFF, rng) as u8,
                6 => p.rdepth = pick(0xFF, rng) as u8,
                7 => p.threshold_mask = [0u128, 1, 2, 1 << 39, (1 << 79) - 2, (1 << 79) - 1, rng.next() as u128, 1 << 78][sel],
                _ => p.trigger_source = [0u8, 1, 3, 0, 1, 3, 0, 1][sel],
            }
        };
        let mut pair = 0;
        for f1 in 0..fields {
            for f2 in f1 + 1..fields {
                pair += 1;
                if pair % 36 != i as usize % 36 && !(pair == 36 && i == 0) {
                    continue;
                }
                for s1 in 0..8 {
                    for s2 in 0..8 {
                        let mut p = seed.clone();
                        set(&mut p, f1, s1, rng);
                        set(&mut p, f2, s2, rng);
                        check(ctx, &p.encode(), "two header fields at boundary values");
                        // the same two fields with equal / adjacent values (relations between fields)
                        ctx.count("header field pairs at boundary values");
                    }
                }
            }
        }
        // the forbidden bit 79 *alone* in either mask (with no block at all / with the seed's blocks), and the must-be-zero
        // bytes 18-19 non-zero next to every boundary value of the field stored right before them (the 48-bit timestamp)
        for which in 0..2 {
            for blocks in [false, true] {
                let mut p = if blocks { seed.clone() } else { Pwb::new('A', seed.mac, rs, vec![]) };
                if which == 0 {
                    p.sent_mask = 1 << 79;
                } else {
                    p.threshold_mask = 1 << 79;
                }
                check(ctx, &p.encode(), "bit 79 alone in a mask");
            }
        }
        for ts in [0u64, 1, 0xFFFF_FFFF_FFFF, 0xFFFF_FFFF_FFFE, 0x8000_0000_0000, 0x0000_0001_0000, 0xFFFF] {
            for z in [[1u8, 0], [0, 1], [0xFF, 0xFF], [0, 0x80], [0x80, 0], [2, 0]] {
                let mut p = seed.clone();
                p.trigger_timestamp = ts;
                p.zero = z;
                check(ctx, &p.encode(), "non-zero bytes 18-19 next to a boundary timestamp");
            }
        }
        // delay against timestamp, explicitly: smaller, equal, larger
        for (d, t) in [(0u16, 0u64), (1, 0), (0, 1), (500, 499), (500, 500), (500, 501), (0xFFFF, 0), (0xFFFF, 0xFFFE), (0xFFFF, 0xFFFF), (0xFFFF, 0x1_0000), (1, 0xFFFF_FFFF_FFFF)] {
            let mut p = seed.clone();
            p.trigger_delay = d;
            p.trigger_timestamp = t;
            check(ctx, &p.encode(), "trigger delay against trigger timestamp");
        }
    });
    ctx.require("header field pairs at boundary values", 2000);
    // ---- one header field at a constant from the library's sources and one more header bit / byte changed
    let dict = super::source_dictionary("detector/src");
    ctx.cases("dictionary-pairs", 52, |ctx, off, rng| {
        let seed = Pwb::new('B', *rng.pick(&macs), 3, vec![(5, samples(rng, 3, 0)), (70, samples(rng, 3, 2))]).encode();
        let n = super::dict_pairs(&seed, off as usize, 0..52, &dict, |_| {}, |b| check_light(ctx, b, "header field at a source constant + one more change"));
        ctx.count_n("inputs with a field at a source constant", n);
    });
    let n = ctx.tier.pick(150_000, 20_000_000);
    ctx.cases("random", n, |ctx, i, rng| {
        let rs = *rng.pick(&[0u16, 1, 2, 3, 4, 7, 8, 15, 16]);
        let dens = rng.next() as u128 | ((rng.next() as u128) << 64);
        let mask: u128 = (rng.next() as u128 | ((rng.next() as u128) << 64)) & ((1u128 << 79) - 1) & if rng.bool() { dens } else { !0 };
        let mut p = Pwb::new(['A', 'B', 'C', 'D'][rng.usize(4)], *rng.pick(&macs), rs, (1..=79u16).filter(|c| mask >> (c - 1) & 1 == 1).map(|c| (c, samples(rng, rs, i))).collect());
        p.threshold_mask = (rng.next() as u128 | ((rng.next() as u128) << 64)) & ((1 << 79) - 1);
        p.trigger_delay = rng.next() as u16;
        p.trigger_timestamp = rng.next() & 0xFFFF_FFFF_FFFF;
        p.event_counter = rng.next() as u32;
        p.fifo_max_depth = rng.next() as u16;
        p.wdepth = rng.next() as u8;
        p.rdepth = rng.next() as u8;
        p.last_sca_cell = rng.below(512) as u16;
        p.trigger_source = *rng.pick(&[0u8, 1, 3]);
        match rng.below(12) {
            0 => p.sent_mask |= 1 << 79,
            1 => p.threshold_mask |= 1 << 79,
            2 => p.last_sca_cell = 512,
            3 => {
                if !p.channels.is_empty() {
                    let k = rng.usize(p.channels.len());
                    p.channels[k].0 ^= 1;
                }
            }
            4 => p.end_marker[rng.usize(4)] = 0xCD,
            5 => {
                if !p.channels.is_empty() {
                    let l = p.channels.len();
                    p.channels.swap(0, rng.usize(l));
                }
            }
            6 => p.trigger_source = 2,
            _ => {}
        }
        let mut b = p.encode();
        match rng.below(8) {
            0 => {
                let k = rng.usize(b.len());
                b[k] = rng.next() as u8;
            }
            1 => {
                let l = b.len() - 1 - rng.usize(4);
                b.truncate(l);
            }
            2 => b.push(0xCC),
            _ => {}
        }
        check(ctx, &b, "random");
    });
    ctx.require("accepted by both", 500);
    ctx.require("rejected by both", 500);
}
