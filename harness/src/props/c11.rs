//! C11 – event results do not depend on bank order and are bit-for-bit reproducible.
use crate::core::*;
use crate::enc::Adc;
use crate::event;
use crate::sim;
use alpha_g_physics::MainEvent;
use serde_json::json;
use std::collections::BTreeMap;
use uom::si::angle::radian;
use uom::si::length::meter;
use uom::si::time::second;

pub fn prop() -> Prop {
    Prop {
        id: "C11",
        level: "exploration",
        rule: "forward-model multi-track events with rounded noise and >= 20 (board, chip) PWB groups, plus malformed events (two bad PWB groups, duplicated wire banks incl. the [short, long] / [long, short] pattern, missing TRG, unknown bank). Every child shard is a fresh process (new HashMap RandomState keys) and computes, for the *same* events, a 64-bit digest over the raw bits of (timestamp, avalanche list in order, vertex) or the Ok/Err class: (a) identity order, reversal, every adjacent transposition (first 40) and 20 random shuffles in-process, (b) 8 concurrent threads, (c) the driver compares the identity digests of all children. A probe event with two differently broken PWB groups reports which group the error blames: the distinct answers seen show that HashMap iteration orders really differed. Non-trivial = distinct events with >= 2 PWB groups and >= 2 wire banks. Also: malformed events that must fail alike in every order: chunk / wire bank present twice with different valid content, bank named for another channel of the same board, repeated chunk id instead of a missing one; a half-failed build before the identity-order build in every second process (state must not leak). Round 4: a duplicate TRG bank with the most neutral content (timestamp 0, counters 0) first or last; a second PWB message that names the same chip inside but travels under another chip label (a group of its own), carrying all but the first channel. Round 5: a second PWB message for one chip without samples after the delay; an intermediate chunk carrying the end-of-message flag too; valid events with per-packet metadata and trigger-timestamp spreads 0..9 / 1000 / unrelated. Round 6: the channels of one (board, chip) split over two complete messages under the same label. Round 7: one chunk (not the first) of a PWB message in a bank named for another board; valid events under a real run number (calibration files with gaps). Round 8: TRG payload fields (firmware revision, counters, bitmaps) varied per event; a valid message from a board not installed for the run. Round 9: all 256 wire banks plus one malformed wire bank at the front / middle / end; valid events under real runs of two calibration periods, the earlier first on each thread.",
        assumptions: &["a fresh process draws new RandomState keys (evidence lists the distinct probe answers observed)", "Ok/Err class must agree across orders; the error variant / payload may legitimately name the first offending bank"],
        profiles: release_only,
        shards: |t| t.pick(8, 32),
        no_progress_cpu_s: Some(600),
        run,
        finalize: Some(finalize),
    }
}

pub type Banks = Vec<(String, Vec<u8>)>;

pub fn digest(run: u32, banks: &Banks) -> String {
    match MainEvent::try_from_banks(run, banks.iter().map(|(n, d)| (&n[..], &d[..]))) {
        Err(_) => "ERR".into(),
        Ok(e) => {
            let mut d = Digest::new();
            d.u64(e.timestamp() as u64);
            let av = e.avalanches();
            d.u64(av.len() as u64);
            for a in av {
                d.f64(a.t.get::<second>());
                d.f64(a.phi.get::<radian>());
                d.f64(a.z.get::<meter>());
                d.f64(a.wire_amplitude);
                d.f64(a.pad_amplitude);
            }
            match e.vertex() {
                None => d.u64(1),
                Some(v) => {
                    d.f64(v.x.get::<meter>());
                    d.f64(v.y.get::<meter>());
                    d.f64(v.z.get::<meter>());
                }
            }
            format!("{:016x}", d.0)
        }
    }
}

fn make_event(m: &sim::Model, inv: &crate::maps::Inv, rng: &mut Rng, kind: u64, idx: u64) -> (Banks, &'static str) {
    let ev = sim::random_event(rng);
    let sg = sim::signals(m, &ev);
    let noise = 1.5;
    let mut wires: BTreeMap<usize, Vec<i16>> = BTreeMap::new();
    for (w, s) in &sg.wires {
        wires.insert(*w, s.iter().map(|x| (3000.0 + x + noise * rng.gauss()).round().clamp(-32768.0, 32767.0) as i16).collect());
    }
    let mut pads: BTreeMap<(usize, usize), Vec<i16>> = BTreeMap::new();
    for (k, s) in &sg.pads {
        pads.insert(*k, s.iter().map(|x| (1725.0 + x + noise * rng.gauss()).round().clamp(-32768.0, 32767.0) as i16).collect());
    }
    // many (board, chip) groups: sprinkle noise pads over the detector
    for _ in 0..40 {
        pads.entry((rng.usize(32), rng.usize(576))).or_insert_with(|| (0..511).map(|_| 1725 + (rng.gauss() * 2.0) as i16).collect());
    }
    let mut banks: Banks = Vec::new();
    for (w, s) in &wires {
        banks.push(event::wire_bank(inv, *w, s.clone()));
    }
    if idx % 2 == 0 {
        banks.extend(event::pad_banks(inv, &pads, 700));
    } else {
        banks.extend(event::pad_banks_varied(inv, &pads, 700, rng, Some((idx / 2 + 7) as usize)));
    }
    {
        // the TRG packet's payload fields (firmware revision, counters, bitmaps) differ from event to event: none of them
        // may decide how the other banks are read
        let mut t = crate::enc::Trg::simple(1000 + idx as u32, *rng.pick(&[77u32, 0, 0x0FFF_FFFF, 0x1234_5678]));
        t.fw = *rng.pick(&[0x12345678u32, 0, 14, 0x5f00_0000, 0x6594_29ff, 0x6594_2a00, 0x66a1_07b5, 0x7fff_ffff, 0xffff_ffff]);
        if idx % 3 == 2 {
            t.fw = rng.next() as u32;
        }
        t.pulser = rng.next() as u32;
        t.trigger_bitmap = rng.next() as u32;
        banks.push(("ATAT".to_string(), t.encode()));
    }
    let what = match kind {
        0 | 1 | 2 => "valid multi-track event",
        3 => {
            // two differently broken PWB groups: drop a chunk of one, corrupt the payload end marker of another
            let names: Vec<String> = banks.iter().filter(|b| b.0.starts_with("PC")).map(|b| b.0.clone()).collect();
            let first = names[0].clone();
            let k = banks.iter().position(|b| b.0 == first).unwrap();
            banks.remove(k);
            "two bad PWB groups"
        }
        4 => {
            let w = *wires.keys().next().unwrap();
            let short = event::wire_bank(inv, w, vec![3000; 80]);
            banks.insert(0, short);
            "duplicate wire bank [short, long]"
        }
        5 => {
            let w = *wires.keys().next().unwrap();
            let short = event::wire_bank(inv, w, vec![3000; 80]);
            banks.push(short);
            "duplicate wire bank [long, short]"
        }
        6 => {
            banks.retain(|b| b.0 != "ATAT");
            "missing TRG"
        }
        7 => {
            banks.insert(banks.len() / 2, ("XXXX".into(), vec![1, 2, 3]));
            "unknown bank in the middle"
        }
        8 => {
            // two sample-less packets of one channel + its long packet elsewhere
            let w = *wires.keys().next().unwrap();
            let (name, mac, ch) = &inv.wire[w];
            let mut a = Adc::simple(*mac, *ch, vec![]);
            a.suppression = true;
            a.requested_samples = 699;
            let nm = format!("C{}{}", name, std::char::from_digit(*ch as u32, 32).unwrap().to_ascii_uppercase());
            banks.insert(0, (nm.clone(), a.encode_short()));
            "suppressed packet + long packet of the same channel"
        }
        9 => {
            // duplicated TRG with a different timestamp: must fail whichever comes first
            banks.insert(0, event::trg_bank(5));
            "two TRG banks"
        }
        10 => {
            // a PWB chunk present twice with different, individually valid content: the copy of the chunk that carries
            // the strongest pad signal, with every pulse sample (|s - 1725| > 30) scaled down, so that whichever copy
            // "wins" changes an avalanche
            let score = |d: &[u8]| -> i64 { d[20..d.len() - 4].chunks_exact(2).map(|c| (i16::from_le_bytes([c[0], c[1]]) as i64 - 1725).abs()).filter(|x| *x > 30 && *x < 3000).sum() };
            let k = (0..banks.len()).filter(|k| banks[*k].0.starts_with("PC")).max_by_key(|k| score(&banks[*k].1)).unwrap();
            let c = super::must_chunk(&banks[k].1);
            let mut payload = c.payload().to_vec();
            let start = if c.chunk_id() == 0 { 52 } else { 0 };
            let mut j = start + (start % 2);
            while j + 1 < payload.len() {
                let v = i16::from_le_bytes([payload[j], payload[j + 1]]);
                if (v as i32 - 1725).abs() > 30 && (v as i32 - 1725).abs() < 3000 {
                    let nv = (1725 + (v as i32 - 1725) * 3 / 5) as i16;
                    payload[j..j + 2].copy_from_slice(&nv.to_le_bytes());
                }
                j += 2;
            }
            let twin = crate::enc::Chunk { device_id: c.board_id().device_id(), packet_sequence: 9, channel_sequence: 9, channel_id: banks[k].1[10], flags: banks[k].1[11], chunk_id: c.chunk_id(), payload };
            let name = banks[k].0.clone();
            banks.push((name, twin.encode()));
            "PWB chunk present twice with different content"
        }
        12 => {
            // a bank named for another channel of the same board, carrying a packet of an existing channel with other samples
            let w = *wires.keys().next().unwrap();
            let mut s = wires[&w].clone();
            for x in s.iter_mut().skip(150).take(60) {
                *x -= 300;
            }
            let (name, payload) = event::wire_bank(inv, w, s);
            let d = name.chars().nth(3).unwrap().to_digit(32).unwrap();
            let other = std::char::from_digit((d + 7) % 32, 32).unwrap().to_ascii_uppercase();
            let new_name = format!("{}{}", &name[..3], other);
            if !banks.iter().any(|b| b.0 == new_name) {
                banks.push((new_name, payload));
            } else {
                banks.retain(|b| b.0 != "ATAT");
            }
            "wire bank named for another channel of the same board"
        }
        13 => {
            // right number of chunks, but one middle chunk carries its neighbour's id (0,1,1,3,...)
            let mut done = false;
            let names: Vec<(String, u8)> = banks.iter().filter(|b| b.0.starts_with("PC")).map(|b| (b.0.clone(), b.1[10])).collect();
            for (nm, chip) in names {
                let idxs: Vec<usize> = (0..banks.len()).filter(|k| banks[*k].0 == nm && banks[*k].1[10] == chip).collect();
                if idxs.len() >= 4 {
                    let k = idxs.iter().copied().find(|k| u16::from_le_bytes([banks[*k].1[12], banks[*k].1[13]]) == 2).unwrap();
                    let c = super::must_chunk(&banks[k].1);
                    let twin = crate::enc::Chunk { device_id: c.board_id().device_id(), packet_sequence: 3, channel_sequence: 3, channel_id: chip, flags: 0, chunk_id: 1, payload: c.payload().to_vec() };
                    banks[k].1 = twin.encode();
                    done = true;
                    break;
                }
            }
            if !done {
                banks.retain(|b| b.0 != "ATAT");
            }
            "PWB message with a repeated chunk id instead of a missing one"
        }
        15 => {
            // duplicated TRG whose extra copy carries the most neutral-looking content (timestamp 0)
            let mut t = crate::enc::Trg::simple(0, 0);
            t.pulser = 0;
            let at = if idx % 2 == 0 { 0 } else { banks.len() };
            banks.insert(at, ("ATAT".into(), t.encode()));
            "two TRG banks, one with timestamp 0"
        }
        16 => {
            // a second PWB message that names the same chip *inside* its payload but travels under another chip label in
            // its chunk headers (so it forms a group of its own); it carries all but the first channel of the original
            let mut done = false;
            let mut groups: Vec<(String, u8)> = banks.iter().filter(|b| b.0.starts_with("PC")).map(|b| (b.0.clone(), b.1[10])).collect();
            groups.sort();
            groups.dedup();
            for (nm, chip) in groups.clone() {
                let mut cs: Vec<alpha_g_detector::padwing::Chunk> = banks.iter().filter(|b| b.0 == nm && b.1[10] == chip).map(|b| super::must_chunk(&b.1)).collect();
                cs.sort_by_key(|c| c.chunk_id());
                let payload: Vec<u8> = cs.iter().flat_map(|c| c.payload().to_vec()).collect();
                let Some(mut p) = crate::refs::pwb_ref(&payload) else { continue };
                let Some(label) = (0..4u8).find(|l| !groups.contains(&(nm.clone(), *l))) else { continue };
                if p.channels.len() < 3 {
                    continue;
                }
                let (first, _) = p.channels.remove(0);
                p.sent_mask &= !(1u128 << (first - 1));
                for c in p.chunks(cs[0].board_id().device_id(), label, 700) {
                    banks.push((nm.clone(), c.encode()));
                }
                done = true;
                break;
            }
            if !done {
                banks.retain(|b| b.0 != "ATAT");
            }
            "two PWB messages for one chip under different chunk labels"
        }
        18 => {
            // a complete message (>= 4 chunks, ids 0..n-1) in which an intermediate chunk also carries the end-of-message flag
            let mut done = false;
            let names: Vec<(String, u8)> = banks.iter().filter(|b| b.0.starts_with("PC")).map(|b| (b.0.clone(), b.1[10])).collect();
            for (nm, chip) in names {
                let idxs: Vec<usize> = (0..banks.len()).filter(|k| banks[*k].0 == nm && banks[*k].1[10] == chip).collect();
                if idxs.len() >= 4 {
                    let want = 1 + (idx as u16 % (idxs.len() as u16 - 2));
                    let k = idxs.iter().copied().find(|k| u16::from_le_bytes([banks[*k].1[12], banks[*k].1[13]]) == want).unwrap();
                    let c = super::must_chunk(&banks[k].1);
                    let twin = crate::enc::Chunk { device_id: c.board_id().device_id(), packet_sequence: 3, channel_sequence: 3, channel_id: chip, flags: 1, chunk_id: want, payload: c.payload().to_vec() };
                    banks[k].1 = twin.encode();
                    done = true;
                    break;
                }
            }
            if !done {
                banks.retain(|b| b.0 != "ATAT");
            }
            "PWB message with the end-of-message flag on an intermediate chunk too"
        }
        22 => {
            // every one of the 256 wires has its bank (sample-less 16-byte packets for those without data), and one more,
            // malformed wire bank sits somewhere among them
            let have: Vec<String> = banks.iter().filter(|b| b.0.starts_with('C')).map(|b| b.0.clone()).collect();
            for w in 0..256usize {
                let (name, mac, ch) = &inv.wire[w];
                let nm = format!("C{}{}", name, std::char::from_digit(*ch as u32, 32).unwrap().to_ascii_uppercase());
                if !have.contains(&nm) {
                    let mut a = Adc::simple(*mac, *ch, vec![]);
                    a.suppression = true;
                    a.requested_samples = 699;
                    banks.push((nm, a.encode_short()));
                }
            }
            let at = [0, banks.len() / 3, banks.len()][(idx % 3) as usize];
            banks.insert(at, ("C09A".into(), vec![1, 3, 0, 4]));
            "all 256 wire banks plus one malformed wire bank"
        }
        21 => {
            // a complete, valid message from a board that exists but is not installed for this run (its position is
            // unknown): the event fails, whichever group is looked at first
            let installed: Vec<String> = inv.pad.iter().flat_map(|c| c.iter().map(|p| p.0.clone())).collect();
            if let Some(b) = crate::refs::PWB_BOARDS.iter().find(|b| !installed.iter().any(|n| n == b.0)) {
                let p = crate::enc::Pwb::new('B', b.1, 200, vec![(5, vec![1725; 200]), (6, vec![1725; 200])]);
                for c in p.chunks(crate::refs::pwb_device_id(&b.1), 1, 700) {
                    banks.insert(banks.len() / 2, (format!("PC{}", b.0), c.encode()));
                }
            } else {
                banks.retain(|b| b.0 != "ATAT");
            }
            "valid PWB message from a board not installed for the run"
        }
        20 => {
            // one chunk (not the first) of a multi-chunk PWB message travels in a bank named for another known board
            let mut done = false;
            let names: Vec<(String, u8)> = banks.iter().filter(|b| b.0.starts_with("PC")).map(|b| (b.0.clone(), b.1[10])).collect();
            for (nm, chip) in names {
                let idxs: Vec<usize> = (0..banks.len()).filter(|k| banks[*k].0 == nm && banks[*k].1[10] == chip).collect();
                if idxs.len() >= 2 {
                    let want = 1 + (idx as u16 % (idxs.len() as u16 - 1));
                    let k = idxs.iter().copied().find(|k| u16::from_le_bytes([banks[*k].1[12], banks[*k].1[13]]) == want).unwrap();
                    let other = crate::refs::PWB_BOARDS.iter().map(|b| format!("PC{}", b.0)).find(|n| *n != nm).unwrap();
                    banks[k].0 = other;
                    done = true;
                    break;
                }
            }
            if !done {
                banks.retain(|b| b.0 != "ATAT");
            }
            "one chunk of a PWB message in a bank named for another board"
        }
        19 => {
            // the channels of one (board, chip) message split over TWO complete messages (each with chunk ids 0..n-1 and
            // its own end-of-message flag) under the same label: their chunks interleave under permutation
            let mut done = false;
            let mut groups: Vec<(String, u8)> = banks.iter().filter(|b| b.0.starts_with("PC")).map(|b| (b.0.clone(), b.1[10])).collect();
            groups.sort();
            groups.dedup();
            for (nm, chip) in groups {
                let mut cs: Vec<alpha_g_detector::padwing::Chunk> = banks.iter().filter(|b| b.0 == nm && b.1[10] == chip).map(|b| super::must_chunk(&b.1)).collect();
                cs.sort_by_key(|c| c.chunk_id());
                let payload: Vec<u8> = cs.iter().flat_map(|c| c.payload().to_vec()).collect();
                let Some(p) = crate::refs::pwb_ref(&payload) else { continue };
                if p.channels.len() < 4 {
                    continue;
                }
                let dev = cs[0].board_id().device_id();
                banks.retain(|b| !(b.0 == nm && b.1[10] == chip));
                let half = p.channels.len() / 2;
                for part in 0..2 {
                    let mut q = p.clone();
                    q.channels = if part == 0 { p.channels[..half].to_vec() } else { p.channels[half..].to_vec() };
                    q.sent_mask = q.channels.iter().fold(0u128, |m, c| m | 1u128 << (c.0 - 1));
                    let size = if part == 0 { 700 } else { 1100 };
                    for c in q.chunks(dev, chip, size) {
                        banks.push((nm.clone(), c.encode()));
                    }
                }
                done = true;
                break;
            }
            if !done {
                banks.retain(|b| b.0 != "ATAT");
            }
            "two complete PWB messages under one (board, chip) label"
        }
        17 => {
            // as 16, but the second message is short: every waveform ends before the run's delay, so it leaves no signal
            let mut done = false;
            let mut groups: Vec<(String, u8)> = banks.iter().filter(|b| b.0.starts_with("PC")).map(|b| (b.0.clone(), b.1[10])).collect();
            groups.sort();
            groups.dedup();
            for (nm, chip) in groups.clone() {
                let mut cs: Vec<alpha_g_detector::padwing::Chunk> = banks.iter().filter(|b| b.0 == nm && b.1[10] == chip).map(|b| super::must_chunk(&b.1)).collect();
                cs.sort_by_key(|c| c.chunk_id());
                let payload: Vec<u8> = cs.iter().flat_map(|c| c.payload().to_vec()).collect();
                let Some(mut p) = crate::refs::pwb_ref(&payload) else { continue };
                let Some(label) = (0..4u8).find(|l| !groups.contains(&(nm.clone(), *l))) else { continue };
                p.requested_samples = 3;
                for c in p.channels.iter_mut() {
                    c.1.truncate(3);
                }
                for c in p.chunks(cs[0].board_id().device_id(), label, 700) {
                    banks.push((nm.clone(), c.encode()));
                }
                done = true;
                break;
            }
            if !done {
                banks.retain(|b| b.0 != "ATAT");
            }
            "two PWB messages for one chip, the second without samples after the delay"
        }
        _ => {
            // a wire bank present twice, both long, different content
            let w = *wires.keys().next().unwrap();
            let mut s = wires[&w].clone();
            for x in s.iter_mut().skip(150).take(30) {
                *x -= 200;
            }
            banks.push(event::wire_bank(inv, w, s));
            "wire bank present twice with different content"
        }
    };
    (banks, what)
}

fn run(ctx: &mut Ctx) {
    let m = sim::Model::load(&repo_root());
    let inv = crate::maps::inverse(u32::MAX);
    // a real-data run: other pad map, calibration files with gaps (a channel without calibration must fail the build in
    // every order and every process alike)
    let inv_real = crate::maps::inverse(11500);
    let inv_9500 = crate::maps::inverse(9500);
    let n_events = ctx.tier.pick(36, 120);
    let shard = ctx.shard as u64;
    // NOTE: every shard processes *all* events (the comparison across processes is the point);
    // only the permutations differ between shards.
    let only = ctx.only.clone();
    ctx.cur_stream = "events".into();
    for i in 0..n_events {
        if let Some((_, k)) = &only {
            if *k != i {
                continue;
            }
        }
        ctx.cur_case = i;
        let mut rng = ctx.rng_for("events", i);
        // the 23 kinds once each, then valid events only (odd ones with per-packet metadata, the spread of the PWB trigger
        // timestamps cycling through 8, 0, 4, 1, 9, 1000, 5, unrelated)
        // (real runs of two calibration periods, the earlier one first on each thread)
        let run_no: u32 = if i >= 23 && i % 4 == 1 { 9500 } else if i >= 23 && i % 4 == 2 { 11500 } else { u32::MAX };
        let (banks, what) = make_event(&m, if run_no == u32::MAX { &inv } else if run_no == 9500 { &inv_9500 } else { &inv_real }, &mut rng, if i < 23 { i } else { 0 }, i);
        let what = if run_no == u32::MAX { what } else { "valid multi-track event under a real run number" };
        let groups = {
            let mut g: Vec<&str> = banks.iter().filter(|b| b.0.starts_with("PC")).map(|b| &b.0[..]).collect();
            g.sort();
            g.dedup();
            g.len()
        };
        let nw = banks.iter().filter(|b| b.0.starts_with('C')).count();
        // state left behind by a *failing* build must not leak into the next one: before the identity-order run of
        // odd shards, build an event that fails half-way (valid chunks first, then a broken wire bank)
        if shard % 2 == 1 {
            let mut poison: Banks = banks.iter().filter(|b| b.0.starts_with("PC")).take(6).cloned().collect();
            poison.push(("C09A".into(), vec![1, 3, 0, 0]));
            let _ = guard(|| digest(run_no, &poison));
        }
        ctx.eval();
        let d0 = match guard(|| digest(run_no, &banks)) {
            Ok(d) => d,
            Err(p) => {
                ctx.panic_violation("try_from_banks / avalanches / vertex", &p, json!({"event": i, "what": what}));
                continue;
            }
        };
        ctx.notes.insert(format!("event {:03} ({})", i, what), d0.clone());
        if shard == 0 {
            ctx.count(&format!("{}: {}", what, if d0 == "ERR" { "fails" } else { "builds" }));
            if groups >= 2 && nw >= 2 {
                let mut d = Digest::new();
                for (n, b) in &banks {
                    d.bytes(n.as_bytes());
                    d.bytes(b);
                }
                ctx.nontrivial(d.0);
            }
            if i < 2 {
                ctx.sample(json!({"kind": what, "banks": banks.len(), "pwb_board_names": groups, "wire_banks": nw, "digest": d0}));
            }
        }
        // (a) permutations, different per shard
        let mut prng = Rng::new(ctx.seed ^ (shard + 1).wrapping_mul(0x9E37) ^ i.wrapping_mul(77));
        let mut perms: Vec<Banks> = Vec::new();
        let mut rev = banks.clone();
        rev.reverse();
        perms.push(rev);
        let nt = banks.len() - 1;
        for t in 0..nt.min(if d0 == "ERR" { 40 } else { 6 }) {
            let k = (t * 7 + shard as usize * 3) % nt;
            let mut b = banks.clone();
            b.swap(k, k + 1);
            perms.push(b);
        }
        for _ in 0..if d0 == "ERR" { 20 } else { 4 } {
            let mut b = banks.clone();
            prng.shuffle(&mut b);
            perms.push(b);
        }
        for (pi, b) in perms.iter().enumerate() {
            ctx.eval();
            match guard(|| digest(run_no, b)) {
                Ok(d) if d == d0 => ctx.count("permutations with identical digest / outcome class"),
                Ok(d) => {
                    let kind = if (d == "ERR") != (d0 == "ERR") { "event builds in one bank order and fails in another" } else { "result bits depend on the bank order" };
                    ctx.violation(kind, format!("event {} ({}): identity order {} vs permutation #{} {}", i, what, d0, pi, d), json!({"event": i, "what": what, "bank_names_identity": banks.iter().map(|x| x.0.clone()).collect::<Vec<_>>(), "bank_names_permuted": b.iter().map(|x| x.0.clone()).collect::<Vec<_>>()}));
                    break;
                }
                Err(p) => {
                    ctx.panic_violation("try_from_banks / avalanches / vertex", &p, json!({"event": i}));
                    break;
                }
            }
        }
        // (b) threads
        if i % 3 == 0 {
            let res: Vec<String> = std::thread::scope(|s| {
                let hs: Vec<_> = (0..8).map(|_| std::thread::Builder::new().stack_size(64 << 20).spawn_scoped(s, || digest(run_no, &banks)).unwrap()).collect();
                hs.into_iter().map(|h| h.join().unwrap_or_else(|_| "PANIC".into())).collect()
            });
            ctx.eval_n(8);
            if res.iter().any(|d| *d != d0) {
                ctx.violation("result differs between threads", format!("event {}: {:?} vs {}", i, res, d0), json!({"event": i}));
            } else {
                ctx.count_n("thread runs with identical digest", 8);
            }
        }
    }
    // HashMap iteration-order probe: six (board, chip) groups, each broken in its own way (chunk id j
    // removed from group j): the error names the missing position, i.e. which group was visited first
    let mut rng = ctx.rng_for("probe", 0);
    let mut pads: BTreeMap<(usize, usize), Vec<i16>> = BTreeMap::new();
    for c in [0usize, 9, 18, 27] {
        for r in 0..576 {
            pads.insert((c, r), (0..300).map(|_| 1725 + (rng.gauss() * 2.0) as i16).collect());
        }
    }
    let mut banks = event::pad_banks(&inv, &pads, 700);
    banks.push(event::trg_bank(1));
    let mut groups: Vec<(String, u8)> = banks.iter().filter(|b| b.0.starts_with("PC")).map(|b| (b.0.clone(), b.1[10])).collect();
    groups.sort();
    groups.dedup();
    for (j, g) in groups.iter().take(6).enumerate() {
        if let Some(k) = banks.iter().position(|b| b.0 == g.0 && b.0.starts_with("PC") && b.1[10] == g.1 && u16::from_le_bytes([b.1[12], b.1[13]]) == j as u16 + 1) {
            banks.remove(k);
        }
    }
    let blamed = match MainEvent::try_from_banks(u32::MAX, banks.iter().map(|(n, d)| (&n[..], &d[..]))) {
        Err(e) => format!("{:?}", e).chars().take(160).collect::<String>(),
        Ok(_) => "built".into(),
    };
    ctx.notes.insert("probe".into(), blamed);
}

fn finalize(m: &mut Ctx, children: &[(String, BTreeMap<String, String>)]) {
    // (c) compare the identity digests across fresh processes
    let mut keys: Vec<&String> = children.iter().flat_map(|c| c.1.keys()).filter(|k| k.starts_with("event")).collect();
    keys.sort();
    keys.dedup();
    m.cur_stream = "cross-process".into();
    for k in keys {
        let vals: Vec<(&String, &String)> = children.iter().filter_map(|c| c.1.get(k).map(|v| (&c.0, v))).collect();
        let first = vals[0].1;
        if vals.iter().any(|v| v.1 != first) {
            m.cur_case = k[6..9].parse().unwrap_or(0);
            m.violation("result differs between processes", format!("{}: {:?}", k, vals), json!({"event": k, "digests": vals.iter().map(|v| json!([v.0, v.1])).collect::<Vec<_>>()}));
        } else {
            m.count_n("cross-process comparisons with identical digest", vals.len() as u64);
        }
    }
    let mut probes: Vec<&String> = children.iter().filter_map(|c| c.1.get("probe")).collect();
    probes.sort();
    probes.dedup();
    m.info.insert("distinct HashMap iteration orders evidenced by the probe (error blamed)".into(), json!(probes.len()));
    m.info.insert("fresh processes compared".into(), json!(children.len()));
    m.count_n("distinct probe answers (HashMap orders seen)", probes.len() as u64);
    // (informational only: an implementation without any hash-ordered container would legitimately give one answer)
    m.requirements.push(("cross-process comparisons with identical digest".into(), 10));
}
