//! C04 – PWB packet reassembly is arrival-order independent and loss/duplication safe.
use crate::core::*;
use crate::enc::{self, Pwb};
use crate::refs::*;
use alpha_g_detector::padwing::{Chunk, PwbPacket, PwbV2Packet};
use serde_json::json;

pub fn prop() -> Prop {
    Prop {
        id: "C04",
        level: "fault_enumeration",
        rule: "payloads from the C05 generator (valid and invalid) cut with chunk sizes {1,2,3,7,52,53,100,1400,>=payload,65535, random}; all n! arrival orders for n<=6, reversal + every adjacent transposition + 200 random orders beyond; success must equal PwbV2Packet::try_from(concatenation in id order) (Debug image), every order must give the same outcome class (error variant). Single faults on every position: drop i, duplicate i, foreign board, foreign chip, set/clear each EOM flag, resize each non-final chunk, empty list: all must fail. Non-trivial = distinct (payload, chunk size, order) triples with n>=2 chunks + distinct fault cases. Also: chunk boundary shifted with the concatenation unchanged (only the equal-size rule can reject); duplicates adjacent to their original; final chunk longer than the others (legal); messages of 32 948..64 820 one-byte chunks in seven structured arrival orders. Round 4: every ordered pair of the 71 known boards (and chip pairs) with one chunk swapped in, two arrival orders; messages of 40..81 KB in 2..60 large chunks, every order for n<=4 and sampled orders beyond. Round 5: chunk sizes that leave a final chunk holding exactly the 4-byte end marker (or one byte less / more). Round 10: double fault keeping count and end points (chunk j lost, chunk k twice, every pair of positions). Round 8: duplicated chunk whose copy carries other packet / channel sequence numbers.",
        assumptions: &["Debug output is a faithful image of a decoded packet", "found/expected fields of DeviceId/ChannelIdMismatch name the first chunk in arrival order: not demanded by the property, only the variant is compared"],
        profiles: both,
        shards: shards16,
        no_progress_cpu_s: Some(60),
        run,
        finalize: None,
    }
}

fn dec(c: &enc::Chunk) -> Chunk {
    super::must_chunk(&c.encode())
}
/// outcome class: Ok(debug image) or Err(variant name)
fn outcome(r: Result<PwbV2Packet, alpha_g_detector::padwing::TryPwbPacketFromChunksError>) -> Result<String, String> {
    match r {
        Ok(p) => Ok(format!("{:?}", p)),
        Err(e) => {
            let v = format!("{:?}", e);
            Err(v.split(|c: char| !c.is_alphanumeric()).next().unwrap_or("").to_string())
        }
    }
}
fn reassemble(ctx: &mut Ctx, chunks: &[Chunk]) -> Option<Result<String, String>> {
    ctx.eval();
    let v = chunks.to_vec();
    match guard(|| outcome(PwbV2Packet::try_from(v))) {
        Ok(o) => Some(o),
        Err(p) => {
            ctx.panic_violation("PwbV2Packet::try_from(Vec<Chunk>)", &p, json!({"n_chunks": chunks.len()}));
            None
        }
    }
}
fn describe(chunks: &[Chunk]) -> serde_json::Value {
    json!(chunks.iter().map(|c| json!({"id": c.chunk_id(), "eom": c.is_end_of_message(), "len": c.payload().len(), "board": c.board_id().name(), "payload": hex_short(c.payload())})).collect::<Vec<_>>())
}

fn permutations(n: usize) -> Vec<Vec<usize>> {
    fn rec(cur: &mut Vec<usize>, used: &mut Vec<bool>, out: &mut Vec<Vec<usize>>) {
        if cur.len() == used.len() {
            out.push(cur.clone());
            return;
        }
        for i in 0..used.len() {
            if !used[i] {
                used[i] = true;
                cur.push(i);
                rec(cur, used, out);
                cur.pop();
                used[i] = false;
            }
        }
    }
    let mut out = Vec::new();
    rec(&mut Vec::new(), &mut vec![false; n], &mut out);
    out
}

fn run(ctx: &mut Ctx) {
    let macs: Vec<[u8; 6]> = PWB_BOARDS.iter().map(|b| b.1).collect();
    let macs = &macs;
    let n = ctx.tier.pick(1600, 200_000);
    ctx.cases("reassembly", n, |ctx, i, rng| {
        // payload: mostly valid, sometimes invalid (then all orders must fail with BadPayload alike)
        let rs = *rng.pick(&[0u16, 1, 2, 3, 5, 8, 20, 64]);
        let nch = 1 + rng.usize(if i % 10 == 0 { 79 } else { 6 });
        let mut ids: Vec<u16> = (1..=79).collect();
        rng.shuffle(&mut ids);
        let mut ids = ids[..nch].to_vec();
        ids.sort();
        let mac = *rng.pick(&macs);
        let chip = rng.usize(4);
        let mut p = Pwb::new(['A', 'B', 'C', 'D'][chip], mac, rs, ids.iter().map(|c| (*c, super::c05::samples(rng, rs, i))).collect());
        if rng.chance(0.15) {
            p.end_marker[0] = 0;
        }
        let payload = p.encode();
        let direct = match guard(|| PwbV2Packet::try_from(&payload[..])) {
            Ok(Ok(pk)) => Ok(format!("{:?}", pk)),
            Ok(Err(_)) => Err("BadPayload".to_string()),
            Err(pn) => {
                ctx.panic_violation("PwbV2Packet::try_from(&[u8])", &pn, json!({"bytes": hex(&payload)}));
                return;
            }
        };
        // (the last four leave a final chunk that holds exactly the 4-byte end marker, or one byte less / more)
        let body = payload.len() - 4;
        let sizes = [1usize, 2, 3, 7, 52, 53, 100, 1400, payload.len(), payload.len() + 5, 65535, 1 + rng.usize(payload.len()), (payload.len() + 5) / 6, (payload.len() + 3) / 4, (payload.len() + 1) / 2, (payload.len() + 2) / 3, body, if body % 2 == 0 { body / 2 } else { body }, if body % 3 == 0 { body / 3 } else { body - 1 }, body + 1];
        let cs = sizes[rng.usize(sizes.len())].max(1);
        let nchunks = (payload.len() + cs - 1) / cs;
        if nchunks > ctx.tier.pick(120, 400) {
            return;
        }
        let dev = pwb_device_id(&mac);
        let raw = p.chunks(dev, chip as u8, cs);
        let chunks: Vec<Chunk> = raw.iter().map(dec).collect();
        let nn = chunks.len();
        *ctx.counters.entry(format!("chunk lists with n={}", if nn <= 6 { nn.to_string() } else if nn <= 20 { "7..20".into() } else { "21+".into() })).or_insert(0) += 1;
        // orders
        let orders: Vec<Vec<usize>> = if nn <= 6 {
            permutations(nn)
        } else {
            let mut o: Vec<Vec<usize>> = vec![(0..nn).collect(), (0..nn).rev().collect()];
            for k in 0..nn - 1 {
                let mut v: Vec<usize> = (0..nn).collect();
                v.swap(k, k + 1);
                o.push(v);
            }
            for _ in 0..ctx.tier.pick(40, 200) {
                let mut v: Vec<usize> = (0..nn).collect();
                rng.shuffle(&mut v);
                o.push(v);
            }
            // rotations
            for k in [1, nn / 2, nn - 1] {
                let mut v: Vec<usize> = (0..nn).collect();
                v.rotate_left(k);
                o.push(v);
            }
            o
        };
        if nn <= 6 {
            ctx.count_n("orders tried exhaustively (n<=6)", orders.len() as u64);
        } else {
            ctx.count_n("orders sampled (n>6)", orders.len() as u64);
        }
        if i < 3 {
            ctx.sample(json!({"kind": "chunk list", "payload_len": payload.len(), "chunk_size": cs, "n_chunks": nn, "orders_tried": orders.len(), "direct_decode_ok": direct.is_ok()}));
        }
        for ord in &orders {
            let list: Vec<Chunk> = ord.iter().map(|k| chunks[*k].clone()).collect();
            let Some(o) = reassemble(ctx, &list) else { return };
            if nn >= 2 {
                let mut d = Digest::new();
                d.bytes(&payload);
                d.u64(cs as u64);
                for k in ord {
                    d.u64(*k as u64);
                }
                ctx.nontrivial(d.0);
            }
            if o != direct {
                ctx.violation(
                    if o.is_ok() != direct.is_ok() { "reassembly outcome differs from direct decode of the concatenation" } else if o.is_ok() { "reassembled packet differs from direct decode" } else { "error class depends on arrival order or differs from direct decode" },
                    format!("order {:?}\n got {:?}\n want {:?}", ord, o.as_ref().map(|s| s.len()).map_err(|e| e.clone()), direct.as_ref().map(|s| s.len()).map_err(|e| e.clone())),
                    json!({"chunks_in_arrival_order": describe(&list)}),
                );
                return;
            }
            // the version-agnostic wrapper must agree
            if ord[0] == nn - 1 {
                let l2 = list.clone();
                match guard(|| PwbPacket::try_from(l2).is_ok()) {
                    Ok(ok) if ok == direct.is_ok() => {}
                    _ => ctx.violation("PwbPacket::try_from(Vec<Chunk>) disagrees with PwbV2Packet", String::new(), json!({"chunks": describe(&list)})),
                }
            }
        }
        // a legal variant: the last two chunks merged into one final chunk that is longer than the others, and a
        // final chunk that takes a few bytes more than its share; every order of those must equal the direct decode too
        if nn >= 3 {
            for variant in 0..2 {
                let mut r2: Vec<enc::Chunk> = raw.clone();
                if variant == 0 {
                    let last = r2.pop().unwrap();
                    let k = r2.len() - 1;
                    r2[k].payload.extend(last.payload);
                    r2[k].flags = 1;
                } else if payload.len() > 3 * cs && cs >= 2 {
                    // re-split with a smaller regular size so that the tail is longer than a regular chunk
                    let reg = cs - 1;
                    let full = payload.len() / reg - 1;
                    if full < 2 || full > 400 {
                        continue;
                    }
                    r2 = (0..full).map(|k| enc::Chunk { device_id: dev, packet_sequence: k as u32, channel_sequence: k as u16, channel_id: chip as u8, flags: 0, chunk_id: k as u16, payload: payload[k * reg..(k + 1) * reg].to_vec() }).collect();
                    r2.push(enc::Chunk { device_id: dev, packet_sequence: 0, channel_sequence: 0, channel_id: chip as u8, flags: 1, chunk_id: full as u16, payload: payload[full * reg..].to_vec() });
                } else {
                    continue;
                }
                let l2: Vec<Chunk> = r2.iter().map(dec).collect();
                for ord in [0usize, 1, 2] {
                    let mut l = l2.clone();
                    match ord {
                        1 => l.reverse(),
                        2 => rng.shuffle(&mut l),
                        _ => {}
                    }
                    let Some(o) = reassemble(ctx, &l) else { return };
                    if o != direct {
                        ctx.violation("reassembly outcome differs from direct decode of the concatenation", format!("final chunk longer than the others ({} chunks): got {:?}", l.len(), o.as_ref().map(|s| s.len()).map_err(|e| e.clone())), json!({"chunks_in_arrival_order": describe(&l)}));
                        return;
                    }
                    ctx.count("lists whose final chunk is longer than the others reassembled identically");
                }
            }
        }
        if direct.is_ok() {
            ctx.count("chunk lists reassembled successfully in every order");
        } else {
            ctx.count("chunk lists failing alike in every order (bad payload)");
        }
        // ---- single faults (only meaningful on lists that reassemble)
        if direct.is_err() {
            return;
        }
        let mut fault = |ctx: &mut Ctx, name: &str, list: Vec<Chunk>, rng: &mut Rng| {
            // each fault is tried in the given order and in a shuffled order
            for shuffled in [false, true] {
                let mut l = list.clone();
                if shuffled {
                    rng.shuffle(&mut l);
                }
                let Some(o) = reassemble(ctx, &l) else { return };
                let mut d = Digest::new();
                d.bytes(name.as_bytes());
                d.bytes(&payload);
                d.u64(cs as u64 + if shuffled { 1 << 40 } else { 0 });
                d.u64(l.len() as u64);
                for c in &l {
                    d.u64(c.chunk_id() as u64 | (c.payload().len() as u64) << 16 | (c.is_end_of_message() as u64) << 40);
                }
                ctx.nontrivial(d.0);
                ctx.count(&format!("fault: {}", name));
                if o.is_ok() {
                    ctx.violation(&format!("reassembly succeeded under fault: {}", name), format!("n={} chunk size {}", l.len(), cs), json!({"chunks_in_arrival_order": describe(&l)}));
                    return;
                }
            }
        };
        fault(ctx, "empty list", Vec::new(), rng);
        let other_mac = macs.iter().find(|m| **m != mac).unwrap();
        let positions: Vec<usize> = if nn <= 12 { (0..nn).collect() } else { vec![0, 1, nn / 2, nn - 2, nn - 1, rng.usize(nn), rng.usize(nn)] };
        for &k in &positions {
            if nn >= 2 {
                let mut l = chunks.clone();
                l.remove(k);
                // dropping the last chunk leaves a list without EOM; dropping another leaves a gap
                fault(ctx, "drop chunk", l, rng);
            }
            let mut l = chunks.clone();
            l.push(chunks[k].clone());
            fault(ctx, "duplicate chunk", l, rng);
            // double fault that keeps the count and both end points: chunk j lost, chunk k arrives twice (round 10)
            for &j in &positions {
                if j != k && j + 1 < nn && k + 1 < nn {
                    let mut l = chunks.clone();
                    l[j] = chunks[k].clone();
                    fault(ctx, "one chunk lost and another duplicated", l, rng);
                }
            }
            // the copy carries other packet / channel sequence numbers (a "retransmission"): still a duplicated id
            let mut r2 = raw[k].clone();
            r2.packet_sequence = r2.packet_sequence.wrapping_add(1 + rng.below(1000) as u32);
            r2.channel_sequence = r2.channel_sequence.wrapping_add(1 + rng.below(100) as u16);
            let mut l = chunks.clone();
            l.insert(rng.usize(l.len() + 1), dec(&r2));
            fault(ctx, "duplicate chunk with other sequence numbers", l, rng);
            // the copy arriving right after / right before the original, list otherwise in id order
            for (name, at) in [("duplicate chunk adjacent (after)", k + 1), ("duplicate chunk adjacent (before)", k)] {
                ctx.eval();
                let mut l = chunks.clone();
                l.insert(at, chunks[k].clone());
                let v = l.clone();
                match guard(|| PwbV2Packet::try_from(v).is_ok()) {
                    Ok(false) => ctx.count(&format!("fault: {}", name)),
                    Ok(true) => {
                        ctx.violation(&format!("reassembly succeeded under fault: {}", name), format!("n={} chunk size {}", l.len(), cs), json!({"chunks_in_arrival_order": describe(&l)}));
                        return;
                    }
                    Err(p) => ctx.panic_violation("PwbV2Packet::try_from(Vec<Chunk>)", &p, json!({})),
                }
            }
            let mut r2 = raw[k].clone();
            r2.device_id = pwb_device_id(other_mac);
            let mut l = chunks.clone();
            l[k] = dec(&r2);
            if nn >= 2 {
                fault(ctx, "chunk of another board", l, rng);
            }
            let mut r2 = raw[k].clone();
            r2.channel_id = (r2.channel_id + 1 + rng.below(3) as u8) % 4;
            let mut l = chunks.clone();
            l[k] = dec(&r2);
            if nn >= 2 {
                fault(ctx, "chunk of another chip", l, rng);
            }
            let mut r2 = raw[k].clone();
            r2.flags ^= 1;
            let mut l = chunks.clone();
            l[k] = dec(&r2);
            fault(ctx, if k == nn - 1 { "EOM cleared on last chunk" } else { "EOM set on earlier chunk" }, l, rng);
            if k + 1 < nn && nn >= 3 {
                // resize a non-final chunk (move bytes to/from nothing: content changes, sizes differ)
                let mut r2 = raw[k].clone();
                if rng.bool() && r2.payload.len() > 1 {
                    r2.payload.pop();
                } else {
                    r2.payload.push(0);
                }
                let mut l = chunks.clone();
                l[k] = dec(&r2);
                fault(ctx, "non-final chunk resized", l, rng);
                // boundary between chunk k and k+1 shifted by 1..3 bytes: the concatenation (and so the
                // directly decoded packet) is unchanged, only the equal-size rule can reject this
                for delta in [1i64, -1, 2, -3] {
                    let (mut a, mut b2) = (raw[k].clone(), raw[k + 1].clone());
                    if delta > 0 {
                        let d = (delta as usize).min(b2.payload.len().saturating_sub(1));
                        if d == 0 {
                            continue;
                        }
                        let moved: Vec<u8> = b2.payload.drain(..d).collect();
                        a.payload.extend(moved);
                    } else {
                        let d = ((-delta) as usize).min(a.payload.len().saturating_sub(1));
                        if d == 0 {
                            continue;
                        }
                        let at = a.payload.len() - d;
                        let moved: Vec<u8> = a.payload.drain(at..).collect();
                        let mut np = moved;
                        np.extend(&b2.payload);
                        b2.payload = np;
                    }
                    // still a violation of the equal-size rule? (chunk k or k+1 is non-final and now differs from the others)
                    let sizes_ok = {
                        let mut sz: Vec<usize> = raw.iter().map(|c| c.payload.len()).collect();
                        sz[k] = a.payload.len();
                        sz[k + 1] = b2.payload.len();
                        sz[..nn - 1].iter().all(|x| *x == sz[0])
                    };
                    if sizes_ok {
                        continue;
                    }
                    let mut l = chunks.clone();
                    l[k] = dec(&a);
                    l[k + 1] = dec(&b2);
                    fault(ctx, if delta > 0 { "chunk boundary shifted: non-final chunk larger" } else { "chunk boundary shifted: non-final chunk smaller" }, l, rng);
                }
            }
        }
    });
    // ---- every ordered pair of known boards (and of chips): a message of the first with one chunk of the second
    let nb = macs.len() as u64;
    ctx.cases("board-pairs", nb * nb, |ctx, i, rng| {
        let (a, b) = ((i / nb) as usize, (i % nb) as usize);
        let rs = 3u16;
        let chip = rng.usize(4);
        let p = Pwb::new(['A', 'B', 'C', 'D'][chip], macs[a], rs, vec![(1 + rng.below(79) as u16, super::c05::samples(rng, rs, i)), ]);
        let payload = p.encode();
        let cs = (payload.len() + 2) / 3;
        let raw = p.chunks(pwb_device_id(&macs[a]), chip as u8, cs);
        let chunks: Vec<Chunk> = raw.iter().map(dec).collect();
        let nn = chunks.len();
        for k in 0..nn {
            for variant in 0..2 {
                let mut r2 = raw[k].clone();
                if a == b && variant == 0 {
                    continue; // same board: only the chip variant below is a fault
                }
                if variant == 0 {
                    r2.device_id = pwb_device_id(&macs[b]);
                } else if a == b {
                    r2.channel_id = (r2.channel_id + 1 + (k as u8 % 3)) % 4;
                } else {
                    continue;
                }
                let mut l = chunks.clone();
                l[k] = dec(&r2);
                for rev in [false, true] {
                    if rev {
                        l.reverse();
                    }
                    ctx.count(if variant == 0 { "board pairs: one chunk of the other board" } else { "chip pairs: one chunk of another chip" });
                    match reassemble(ctx, &l) {
                        Some(Ok(_)) => {
                            ctx.violation("reassembly succeeded under fault: chunk of another board / chip", format!("message of board {} with chunk {} from board {} (chip byte {} vs {})", PWB_BOARDS[a].0, k, PWB_BOARDS[b].0, raw[k].channel_id, r2.channel_id), json!({"chunks_in_arrival_order": describe(&l)}));
                            return;
                        }
                        Some(Err(_)) => {}
                        None => return,
                    }
                }
            }
        }
    });
    ctx.require("board pairs: one chunk of the other board", 4000);
    // ---- large messages (up to the largest PWB packet, 81 268 bytes) in few large chunks: every order / sampled orders
    ctx.cases("large-messages", ctx.tier.pick(40, 160), |ctx, i, rng| {
        let nch = [40usize, 41, 50, 64, 79][(i % 5) as usize];
        let rs = if i % 7 == 6 { 400 + rng.below(112) as u16 } else { 511u16 };
        let mut ids: Vec<u16> = (1..=79).collect();
        rng.shuffle(&mut ids);
        let mut ids = ids[..nch].to_vec();
        ids.sort();
        let mac = *rng.pick(&macs);
        let chip = rng.usize(4);
        let p = Pwb::new(['A', 'B', 'C', 'D'][chip], mac, rs, ids.iter().map(|c| (*c, super::c05::samples(rng, rs, i))).collect());
        let payload = p.encode();
        let pl = payload.len();
        let sizes = [65535usize, pl - 1, pl / 2 + 1, pl / 2, pl / 3 + 1, pl / 4 + 1, pl / 5 + 1, 40_000, 30_000, 8_000, 1_440, 1 + pl / (2 + rng.usize(30))];
        let cs = sizes[((i / 5) as usize) % sizes.len()].clamp(1, 65535);
        let raw = p.chunks(pwb_device_id(&mac), chip as u8, cs);
        let chunks: Vec<Chunk> = raw.iter().map(dec).collect();
        let nn = chunks.len();
        let direct = match guard(|| PwbV2Packet::try_from(&payload[..])) {
            Ok(Ok(pk)) => Ok(format!("{:?}", pk)),
            Ok(Err(_)) => Err("BadPayload".to_string()),
            Err(pn) => {
                ctx.panic_violation("PwbV2Packet::try_from(&[u8])", &pn, json!({"len": pl}));
                return;
            }
        };
        let orders: Vec<Vec<usize>> = if nn <= 4 {
            permutations(nn)
        } else {
            let mut o: Vec<Vec<usize>> = vec![(0..nn).collect(), (0..nn).rev().collect()];
            for k in [1, nn / 2, nn - 1] {
                let mut v: Vec<usize> = (0..nn).collect();
                v.rotate_left(k);
                o.push(v);
            }
            for _ in 0..6 {
                let mut v: Vec<usize> = (0..nn).collect();
                rng.shuffle(&mut v);
                o.push(v);
            }
            o
        };
        for ord in &orders {
            let list: Vec<Chunk> = ord.iter().map(|k| chunks[*k].clone()).collect();
            let Some(o) = reassemble(ctx, &list) else { return };
            let mut d = Digest::new();
            d.bytes(&payload[..64]);
            d.u64(cs as u64);
            for k in ord {
                d.u64(*k as u64);
            }
            ctx.nontrivial(d.0);
            if o != direct {
                ctx.violation("reassembly outcome differs from direct decode of the concatenation", format!("{} byte message in {} chunks of {} bytes, arrival order {:?}: got {:?}", pl, nn, cs, &ord[..ord.len().min(12)], o.as_ref().map(|s| s.len()).map_err(|e| e.clone())), json!({"payload_len": pl, "chunk_size": cs, "order": ord}));
                return;
            }
            ctx.count("orders of messages > 40 KB reassembled identically");
        }
    });
    ctx.require("orders of messages > 40 KB reassembled identically", 100);
    // ---- messages of more than 32768 / close to 65536 chunks: id comparison across half the 16-bit range
    ctx.cases("many-chunks", ctx.tier.pick(4, 16), |ctx, i, rng| {
        let rs = 511u16;
        let nch = [32usize, 33, 62, 63][(i % 4) as usize]; // 63 channels x 511 samples = 64 820 bytes: the largest message whose 1-byte chunks still have distinct 16-bit ids
        let ids: Vec<u16> = (1..=nch as u16).collect();
        let mac = macs[(i as usize * 5) % macs.len()];
        let p = Pwb::new('A', mac, rs, ids.iter().map(|c| (*c, super::c05::samples(rng, rs, i))).collect());
        let payload = p.encode();
        let raw = p.chunks(pwb_device_id(&mac), 0, 1);
        let chunks: Vec<Chunk> = raw.iter().map(dec).collect();
        let nn = chunks.len();
        let direct = match guard(|| PwbV2Packet::try_from(&payload[..])) {
            Ok(Ok(pk)) => Ok(format!("{:?}", pk)),
            _ => Err("BadPayload".to_string()),
        };
        let mut orders: Vec<(&str, Vec<usize>)> = Vec::new();
        orders.push(("in order", (0..nn).collect()));
        orders.push(("reversed", (0..nn).rev().collect()));
        orders.push(("second half first", (nn / 2..nn).chain(0..nn / 2).collect()));
        orders.push(("even ids then odd ids", (0..nn).step_by(2).chain((1..nn).step_by(2)).collect()));
        orders.push(("last quarter, first quarter, middle", (3 * nn / 4..nn).chain(0..nn / 4).chain(nn / 4..3 * nn / 4).collect()));
        let mut sh: Vec<usize> = (0..nn).collect();
        rng.shuffle(&mut sh);
        orders.push(("random shuffle", sh));
        let mut far: Vec<usize> = Vec::new();
        for k in 0..nn / 2 {
            far.push(k);
            far.push(k + nn / 2);
        }
        if nn % 2 == 1 {
            far.push(nn - 1);
        }
        orders.push(("ids k and k + n/2 alternating", far));
        for (name, ord) in orders {
            let list: Vec<Chunk> = ord.iter().map(|k| chunks[*k].clone()).collect();
            let Some(o) = reassemble(ctx, &list) else { return };
            let mut d = Digest::new();
            d.bytes(name.as_bytes());
            d.bytes(&payload[..64]);
            d.u64(nn as u64);
            ctx.nontrivial(d.0);
            if o != direct {
                ctx.violation("reassembly outcome differs from direct decode of the concatenation", format!("{} chunks of 1 byte, arrival order `{}`: got {:?}", nn, name, o.as_ref().map(|s| s.len()).map_err(|e| e.clone())), json!({"n_chunks": nn, "order": name}));
                return;
            }
            ctx.count("orders of messages with > 16000 chunks reassembled identically");
        }
    });
    ctx.require("chunk lists reassembled successfully in every order", 50);
    ctx.require("orders tried exhaustively (n<=6)", 100);
    ctx.require("fault: drop chunk", 20);
    ctx.require("fault: one chunk lost and another duplicated", 20);
}
