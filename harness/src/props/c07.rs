//! C07 – Chronobox FIFO parsing is faithful, resumable and split-invariant.
use crate::cb::*;
use crate::core::*;
use alpha_g_detector::chronobox::{chronobox_fifo, EdgeType, FifoEntry};
use serde_json::json;

pub fn prop() -> Prop {
    Prop {
        id: "C07",
        level: "exploration",
        rule: "streams mixing timestamp words, markers, complete/partial/back-to-back scaler blocks, bare tags, invalid words and truncated tails (0..4 KiB): library entries + consumed length vs a reference parser; split/resume history: every single cut position, all pairs of cuts for streams <=300 bytes, random k-cuts (k<=8), 1-byte pieces, each compared with the one-shot result. Word classification: all 256 top bytes x boundary low parts (quick) / all 2^32 words (thorough, distinct by construction). Non-trivial = distinct streams containing >=1 entry and >=1 scaler block or invalid word, plus classified words that are entries. Also: runs of 65 534..131 073 consecutive entries (one shot and in 10 007-byte pieces), every value of every byte of the scaler tag followed by > 240 bytes of valid words, alignment independence. Round 5: every ordered pair of 1 792 boundary words as 2- / 3-word streams; scaler blocks with special contents (tags, markers, all ones) between identical markers; words made from source constants. Round 6: inputs of 0.3..1.2 MB ending in a complete block / partial block / entry / partial word / invalid word; invalid-channel words inside runs of 4 000..70 000 entries. Round 8: every word 0xFE0000nn / 0xFEnn003C / 0xFE00nn3C followed by 1 100 bytes of entries; timestamps within 16 ticks of a wrap right after a marker. Round 9: the odd-address parse runs under the panic monitor too.",
        assumptions: &["reference parser (harness/src/cb.rs::ref_parse) transcribes the statement"],
        profiles: both,
        shards: shards16,
        no_progress_cpu_s: Some(60),
        run,
        finalize: None,
    }
}

pub fn conv(v: &[FifoEntry]) -> Vec<Entry> {
    v.iter()
        .map(|e| match e {
            FifoEntry::TimestampCounter(t) => Entry::Ts { channel: u8::from(t.channel), leading: matches!(t.edge, EdgeType::Leading), ts: t.timestamp() },
            FifoEntry::WrapAroundMarker(m) => Entry::Marker { top: m.timestamp_top_bit, counter: m.wrap_around_counter() },
        })
        .collect()
}
/// one parse call under the panic monitor: (entries, consumed)
pub fn lib_parse(ctx: &mut Ctx, bytes: &[u8]) -> Option<(Vec<Entry>, usize)> {
    ctx.eval();
    match guard(|| {
        let mut s = bytes;
        let got = conv(&chronobox_fifo(&mut s));
        // the remainder must be the untouched tail of the input
        let consumed = bytes.len() - s.len();
        let tail_ok = s.as_ptr() == bytes[consumed..].as_ptr();
        (got, consumed, tail_ok)
    }) {
        Ok((g, c, true)) => {
            if bytes.len() < 600 {
                let m = Misaligned::new(bytes);
                match guard(|| {
                    let mut s = m.slice();
                    let g2 = conv(&chronobox_fifo(&mut s));
                    (g2, m.slice().len() - s.len())
                }) {
                    Ok((g2, c2)) if g2 == g && c2 == c => {}
                    Ok(_) => {
                        ctx.violation("parsing depends on the alignment of the input slice", String::new(), json!({"bytes": hex(bytes)}));
                        return None;
                    }
                    Err(p) => {
                        ctx.panic_violation("chronobox_fifo (odd address)", &p, json!({"bytes": hex(bytes)}));
                        return None;
                    }
                }
            }
            Some((g, c))
        }
        Ok((_, _, false)) => {
            ctx.violation("remainder is not the unconsumed tail of the input", String::new(), json!({"bytes": hex(bytes)}));
            None
        }
        Err(p) => {
            ctx.panic_violation("chronobox_fifo", &p, json!({"bytes": hex(bytes)}));
            None
        }
    }
}

pub fn gen_stream(rng: &mut Rng, max_items: u64) -> (Vec<u8>, bool, bool) {
    let mut bytes = Vec::new();
    let k = rng.below(max_items + 1);
    let (mut has_block_or_invalid, mut has_entry) = (false, false);
    // two out of three streams contain only valid elements (so that parsing goes deep); the rest are
    // poisoned with invalid words / bare tags / partial blocks at a few random places
    let poison = rng.below(3) == 0;
    for _ in 0..k {
        let sel = if poison && rng.chance(0.08) { rng.below(4) } else { 4 + rng.below(16) };
        match sel {
            0 => {
                let w = (rng.next() as u32).to_le_bytes();
                bytes.extend(w);
                has_block_or_invalid = true;
            }
            1 => {
                bytes.extend(&TAG[..]);
                has_block_or_invalid = true;
            }
            2 => {
                // partial scaler block
                let b = scaler_block(rng);
                let l = 4 + rng.usize(240);
                bytes.extend(&b[..l]);
                has_block_or_invalid = true;
            }
            3 => {
                // channel beyond the last valid one
                let ch = *rng.pick(&[59u8, 60, 126, 127]);
                bytes.extend([rng.next() as u8, rng.next() as u8, rng.next() as u8, 0x80 | ch]);
                has_block_or_invalid = true;
            }
            4 | 5 => {
                bytes.extend(scaler_block(rng));
                has_block_or_invalid = true;
            }
            6 => {
                // two blocks back to back
                bytes.extend(scaler_block(rng));
                bytes.extend(scaler_block(rng));
                has_block_or_invalid = true;
            }
            7 | 8 => {
                bytes.extend(marker_word(rng.next() as u32));
                has_entry = true;
            }
            9 => {
                // channel at the boundary
                let ch = *rng.pick(&[0u8, 57, 58]);
                bytes.extend([rng.next() as u8, rng.next() as u8, rng.next() as u8, 0x80 | ch]);
                has_entry = true;
            }
            _ => {
                bytes.extend(ts_word(rng.below(59) as u8, rng.bool(), rng.next()));
                has_entry = true;
            }
        }
    }
    if rng.below(3) == 0 {
        let l = bytes.len();
        bytes.truncate(l - rng.usize(6).min(l));
    }
    (bytes, has_entry, has_block_or_invalid)
}

fn feed_in_pieces(ctx: &mut Ctx, bytes: &[u8], cuts: &[usize]) -> Option<(Vec<Entry>, Vec<u8>)> {
    let mut buf: Vec<u8> = Vec::new();
    let mut acc = Vec::new();
    let mut prev = 0;
    for &c in cuts.iter().chain(std::iter::once(&bytes.len())) {
        buf.extend(&bytes[prev..c]);
        prev = c;
        let (e, consumed) = lib_parse(ctx, &buf)?;
        acc.extend(e);
        buf.drain(..consumed);
    }
    Some((acc, buf))
}

fn run(ctx: &mut Ctx) {
    // ---- classification of single words
    let thorough = !ctx.quick();
    if thorough {
        // all 2^32 words, split over 4096 cases of 2^20 words
        ctx.cases("allwords", 4096, |ctx, i, _rng| {
            let mut entries = 0u64;
            for lo in 0..(1u32 << 20) {
                let w = ((i as u32) << 20 | lo).to_le_bytes();
                let mut s = &w[..];
                let got = chronobox_fifo(&mut s);
                let exp = classify(w);
                let ok = match (got.len(), exp) {
                    (0, None) => s.len() == 4,
                    (1, Some(e)) => s.is_empty() && conv(&got)[0] == e,
                    _ => false,
                };
                if exp.is_some() {
                    entries += 1;
                }
                if !ok {
                    ctx.violation("single word classified differently from the reference", format!("word {:02x?}", w), json!({"word": hex(&w)}));
                    break;
                }
            }
            ctx.eval_n(1 << 20);
            ctx.distinct_enum += entries;
            ctx.count_n("words classified (exhaustive 2^32 sweep)", 1 << 20);
            ctx.count_n("words that are entries", entries);
        });
    }
    ctx.cases("words", 256, |ctx, top, rng| {
        let mut lows: Vec<u32> = vec![0, 1, 2, 3, (1 << 23) - 1, 1 << 23, (1 << 23) + 1, (1 << 24) - 2, (1 << 24) - 1, 0x7F_FFFE, 0x80_0001];
        for _ in 0..1000 {
            lows.push(rng.next() as u32 & 0xFF_FFFF);
        }
        for lo in lows {
            let l = lo.to_le_bytes();
            let w = [l[0], l[1], l[2], top as u8];
            let Some((got, consumed)) = lib_parse(ctx, &w) else { return };
            let exp = classify(w);
            if exp.is_some() {
                ctx.nontrivial_bytes(&w);
            }
            let ok = match (got.len(), exp) {
                (0, None) => consumed == 0,
                (1, Some(e)) => consumed == 4 && got[0] == e,
                _ => false,
            };
            if !ok {
                ctx.violation("single word classified differently from the reference", format!("word {:02x?} got {:?} consumed {} want {:?}", w, got, consumed, exp), json!({"word": hex(&w)}));
                return;
            }
            ctx.count("boundary/random words classified");
        }
    });
    // ---- streams: differential + split histories
    let n = ctx.tier.pick(1500, 40_000);
    ctx.cases("streams", n, |ctx, i, rng| {
        let (bytes, has_entry, has_other) = gen_stream(rng, if i % 5 == 0 { 10 } else { 60 });
        let Some((got, consumed)) = lib_parse(ctx, &bytes) else { return };
        let (exp, ec) = ref_parse(&bytes);
        if has_entry && has_other {
            ctx.nontrivial_bytes(&bytes);
        }
        if i < 2 {
            ctx.sample(json!({"kind": "FIFO stream", "len": bytes.len(), "entries": exp.len(), "consumed": ec, "bytes": hex_short(&bytes)}));
        }
        if got != exp || consumed != ec {
            ctx.violation("entries or consumed length differ from the reference parser", format!("consumed {} vs {}, entries {} vs {}", consumed, ec, got.len(), exp.len()), json!({"bytes": hex(&bytes)}));
            return;
        }
        ctx.count("streams parsed identically to the reference");
        if ec < bytes.len() {
            ctx.count("streams with an unconsumed remainder");
        }
        let mut cutsets: Vec<Vec<usize>> = (0..=bytes.len()).map(|c| vec![c]).collect();
        ctx.count_n("single-cut histories", cutsets.len() as u64);
        if bytes.len() <= 300 && (thorough || i % 4 == 0) {
            for a in 0..=bytes.len() {
                for b in a..=bytes.len() {
                    cutsets.push(vec![a, b]);
                }
            }
            ctx.count("streams with all pairs of cuts");
        }
        for _ in 0..30 {
            let mut c: Vec<usize> = (0..1 + rng.below(8)).map(|_| rng.usize(bytes.len() + 1)).collect();
            c.sort();
            cutsets.push(c);
        }
        if bytes.len() <= 2000 {
            cutsets.push((1..bytes.len()).collect()); // 1-byte pieces
            cutsets.push((1..bytes.len()).step_by(3).collect());
            cutsets.push((1..bytes.len()).step_by(4).collect());
            cutsets.push((2..bytes.len()).step_by(244).collect());
        }
        for cs in cutsets {
            ctx.count("cut histories replayed");
            let Some((acc, rem)) = feed_in_pieces(ctx, &bytes, &cs) else { return };
            if acc != exp || rem != bytes[ec..] {
                ctx.violation("piecewise parsing differs from one-shot parsing", format!("cuts {:?}: entries {} vs {}, remainder {} vs {}", if cs.len() > 12 { &cs[..12] } else { &cs[..] }, acc.len(), exp.len(), rem.len(), bytes.len() - ec), json!({"bytes": hex(&bytes), "cuts": cs}));
                return;
            }
        }
    });
    // ---- every ordered pair of boundary words (all 256 top bytes x 7 low parts, the scaler tag among them) as a 2-word
    // stream, and with a third word appended: what a word means must not depend on its neighbours or its position
    let lows: [u32; 11] = [0, 1, 0x3C, 0x7F_FFFF, 0x80_0000, 0xFF_FFFF, 0x00_003D, 0x7F_FFF0, 0x7F_FFFE, 0xFF_FFF0, 0xFF_FFFE];
    ctx.cases("word-pairs", 256, |ctx, top1, rng| {
        for lo1 in lows {
            let a = (lo1 | (top1 as u32) << 24).to_le_bytes();
            for top2 in 0..256u32 {
                for lo2 in lows {
                    let b = (lo2 | top2 << 24).to_le_bytes();
                    let mut st = a.to_vec();
                    st.extend(b);
                    if (top2 + lo2) % 5 == 0 {
                        st.extend(ts_word(rng.below(59) as u8, rng.bool(), rng.next()));
                    }
                    let Some((got, consumed)) = lib_parse(ctx, &st) else { return };
                    let (exp, ec) = ref_parse(&st);
                    if got != exp || consumed != ec {
                        ctx.violation("entries or consumed length differ from the reference parser", format!("stream {:02x?}: consumed {} vs {}, entries {} vs {}", st, consumed, ec, got.len(), exp.len()), json!({"bytes": hex(&st)}));
                        return;
                    }
                }
            }
        }
        ctx.count_n("two- and three-word streams of boundary words", 11 * 256 * 11);
    });
    // ---- inputs of 1 MiB and more (a size at which an implementation may switch strategy), ending in a complete block,
    // a partial block, an entry, a partial word, an invalid word; and words with a channel number beyond the last
    // (top byte 0xBB..=0xFD) placed inside runs of 4 000..70 000 consecutive entries
    ctx.cases("megabyte", ctx.tier.pick(10, 40), |ctx, i, rng| {
        let mut st: Vec<u8> = Vec::new();
        let target = if i % 2 == 0 { (1usize << 20) + rng.usize(5000) } else { 300_000 + rng.usize(900_000) };
        while st.len() < target {
            match rng.below(40) {
                0 => st.extend(scaler_block(rng)),
                1 => st.extend(marker_word(rng.next() as u32)),
                _ => {
                    for _ in 0..rng.usize(2000) {
                        st.extend(ts_word(rng.below(59) as u8, rng.bool(), rng.next()));
                    }
                }
            }
        }
        match i % 5 {
            0 => st.extend(scaler_block(rng)),
            1 => {
                let b = scaler_block(rng);
                st.extend(&b[..4 + rng.usize(240)]);
            }
            2 => st.extend(ts_word(3, true, 77)),
            3 => st.extend([1u8, 2]),
            _ => st.extend([1u8, 2, 3, 0x80 | 60]),
        }
        let Some((got, consumed)) = lib_parse(ctx, &st) else { return };
        let (exp, ec) = ref_parse(&st);
        if got != exp || consumed != ec {
            ctx.violation("entries or consumed length differ from the reference parser", format!("{} byte stream (ending kind {}): consumed {} vs {}, entries {} vs {}", st.len(), i % 5, consumed, ec, got.len(), exp.len()), json!({"len": st.len(), "tail": hex(&st[st.len() - 260..])}));
            return;
        }
        ctx.count("streams of 0.3 .. 1.2 MB parsed identically to the reference");
    });
    ctx.cases("bad-word-in-long-run", ctx.tier.pick(12, 60), |ctx, i, rng| {
        let n = [4000usize, 4095, 4096, 4097, 5000, 65_535, 65_536, 70_000][(i % 8) as usize];
        let at = [n / 2, n - 1, 1, n - 10][((i / 8) % 4) as usize];
        let mut st: Vec<u8> = Vec::new();
        if i % 3 == 0 {
            st.extend(scaler_block(rng));
        }
        for k in 0..n {
            if k == at {
                st.extend([rng.next() as u8, rng.next() as u8, rng.next() as u8, 0xBB + rng.below(0x43) as u8]);
            }
            if k % 997 == 5 {
                st.extend(marker_word(rng.next() as u32));
            } else {
                st.extend(ts_word(rng.below(59) as u8, rng.bool(), rng.next()));
            }
        }
        let Some((got, consumed)) = lib_parse(ctx, &st) else { return };
        let (exp, ec) = ref_parse(&st);
        if got != exp || consumed != ec {
            ctx.violation("entries or consumed length differ from the reference parser", format!("run of {} entries with an invalid-channel word at entry {}: consumed {} vs {}, entries {} vs {}", n, at, consumed, ec, got.len(), exp.len()), json!({"n": n, "at": at}));
            return;
        }
        ctx.count("long runs with an invalid-channel word inside parsed identically");
    });
    // ---- words made from the integer literals of the library sources (and their variants with each entry-type top
    // byte), between two timestamps, after a scaler block and alone: no particular word is special
    let dict = super::source_dictionary("detector/src");
    ctx.cases("dictionary-words", 16, |ctx, part, rng| {
        let tops: Vec<u8> = vec![0xFF, 0xFE, 0x80, 0x80 | 58, 0x80 | 59, 0x00, 0x7F];
        for (k, &v) in dict.iter().enumerate() {
            if k as u64 % 16 != part || v > u32::MAX as u64 {
                continue;
            }
            let mut words: Vec<[u8; 4]> = vec![(v as u32).to_le_bytes(), (v as u32).to_be_bytes()];
            for &t in &tops {
                words.push(((v as u32 & 0x00FF_FFFF) | (t as u32) << 24).to_le_bytes());
            }
            for w in words {
                let a = ts_word(rng.below(59) as u8, rng.bool(), rng.next());
                for st in [w.to_vec(), [a.to_vec(), w.to_vec(), a.to_vec()].concat(), [scaler_block(rng), w.to_vec(), a.to_vec()].concat(), [w.to_vec(), w.to_vec()].concat()] {
                    let Some((got, consumed)) = lib_parse(ctx, &st) else { return };
                    let (exp, ec) = ref_parse(&st);
                    if got != exp || consumed != ec {
                        ctx.violation("entries or consumed length differ from the reference parser", format!("stream with the word {:02x?}: consumed {} vs {}, entries {} vs {}", w, consumed, ec, got.len(), exp.len()), json!({"bytes": hex_short(&st)}));
                        return;
                    }
                    ctx.count("streams with words made from source constants");
                }
            }
        }
    });
    // ---- every word 0xFE0000nn and 0xFEnn003C / 0xFE00nn3C at an element boundary, followed by 1 100 bytes of valid entries
    // (enough for a "block" of any length up to 255 words): only 3C 00 00 FE starts a block, and it is 244 bytes long
    ctx.cases("tag-variants", 256, |ctx, nn, rng| {
        for w in [0xFE00_0000u32 | nn as u32, 0xFE00_003C | (nn as u32) << 16, 0xFE00_003C | (nn as u32) << 8] {
            let mut st: Vec<u8> = Vec::new();
            st.extend(ts_word(rng.below(59) as u8, rng.bool(), rng.next()));
            st.extend(w.to_le_bytes());
            for _ in 0..275 {
                st.extend(ts_word(rng.below(59) as u8, rng.bool(), rng.next()));
            }
            let Some((got, consumed)) = lib_parse(ctx, &st) else { return };
            let (exp, ec) = ref_parse(&st);
            if got != exp || consumed != ec {
                ctx.violation("entries or consumed length differ from the reference parser", format!("tag-like word {:08x} followed by 1100 bytes of entries: consumed {} vs {}, entries {} vs {}", w, consumed, ec, got.len(), exp.len()), json!({"word": format!("{:08x}", w)}));
                return;
            }
            ctx.count("tag-like words followed by a long run of entries");
        }
    });
    // ---- scaler blocks whose 240 content bytes are themselves tags / markers / timestamps / all ones, alone, back to
    // back, first and last in the stream, followed by every kind of word
    ctx.cases("block-contents", 64, |ctx, i, rng| {
        let fill: Vec<u8> = match i % 8 {
            0 => TAG.iter().cycle().take(240).cloned().collect(),
            1 => vec![0xFF; 240],
            2 => vec![0; 240],
            3 => (0..60).flat_map(|k| marker_word(k).to_vec()).collect(),
            4 => (0..60).flat_map(|_| ts_word(rng.below(59) as u8, rng.bool(), rng.next()).to_vec()).collect(),
            5 => (0..240).map(|k| if k % 4 == 3 { 0xFE } else { 0x3C }).collect(),
            6 => [vec![0u8; 236], TAG.to_vec()].concat(),
            _ => rng.bytes(240),
        };
        let block = [TAG.to_vec(), fill].concat();
        let same_marker = marker_word(rng.next() as u32).to_vec();
        let word = |rng: &mut Rng, k: u64| -> Vec<u8> {
            match k % 6 {
                5 => same_marker.clone(), // the very same marker before and after the block(s)
                0 => ts_word(rng.below(59) as u8, rng.bool(), rng.next()).to_vec(),
                1 => marker_word(rng.next() as u32).to_vec(),
                2 => TAG.to_vec(),
                3 => vec![1, 2, 3, 0x80 | 59],
                _ => Vec::new(),
            }
        };
        for before in 0..6 {
            for after in 0..6 {
                for reps in 1..=3 {
                    let mut st = word(rng, before);
                    for _ in 0..reps {
                        st.extend(&block);
                    }
                    st.extend(word(rng, after));
                    let Some((got, consumed)) = lib_parse(ctx, &st) else { return };
                    let (exp, ec) = ref_parse(&st);
                    if got != exp || consumed != ec {
                        ctx.violation("entries or consumed length differ from the reference parser", format!("scaler block with special content (kind {}), {} block(s), word kinds {} / {} around: consumed {} vs {}, entries {} vs {}", i % 8, reps, before, after, consumed, ec, got.len(), exp.len()), json!({"bytes": hex(&st)}));
                        return;
                    }
                    ctx.count("streams with scaler blocks of special content");
                }
            }
        }
    });
    // ---- runs of entries at and beyond the 16-bit limits (any internal counter / repeat bound would show)
    ctx.cases("long-runs", ctx.tier.pick(6, 24), |ctx, i, rng| {
        let n = [65_534usize, 65_535, 65_536, 65_537, 70_000, 131_073][(i % 6) as usize];
        let mut bytes = Vec::with_capacity(4 * n + 600);
        if i % 2 == 0 {
            bytes.extend(scaler_block(rng));
        }
        for k in 0..n {
            if k % 1000 == 999 {
                bytes.extend(marker_word(k as u32 / 1000));
            } else {
                bytes.extend(ts_word((k % 59) as u8, k % 2 == 0, rng.next()));
            }
        }
        bytes.extend(scaler_block(rng));
        for _ in 0..5 {
            bytes.extend(ts_word(1, false, rng.next()));
        }
        let Some((got, consumed)) = lib_parse(ctx, &bytes) else { return };
        let (exp, ec) = ref_parse(&bytes);
        if got != exp || consumed != ec {
            ctx.violation("entries or consumed length differ from the reference parser", format!("run of {} consecutive entries: consumed {} vs {}, entries {} vs {}", n, consumed, ec, got.len(), exp.len()), json!({"consecutive_entries": n}));
            return;
        }
        // and in pieces
        let cuts: Vec<usize> = (1..bytes.len()).step_by(10_007).collect();
        if let Some((acc, rem)) = feed_in_pieces(ctx, &bytes, &cuts) {
            if acc != exp || rem != bytes[ec..] {
                ctx.violation("piecewise parsing differs from one-shot parsing", format!("run of {} consecutive entries", n), json!({"consecutive_entries": n}));
                return;
            }
        }
        ctx.count("long runs (>= 65534 consecutive entries) parsed identically");
    });
    // ---- near-miss scaler tags (each tag byte at every value) followed by > 240 bytes of valid words: the parser
    // must stop there, whatever follows
    ctx.cases("near-tags", 4, |ctx, pos, rng| {
        for v in 0..=255u8 {
            let mut tag = TAG;
            tag[pos as usize] = v;
            let mut bytes = Vec::new();
            bytes.extend(ts_word(3, false, 77));
            bytes.extend(marker_word(0));
            bytes.extend(tag);
            for _ in 0..80 {
                bytes.extend(ts_word(rng.below(59) as u8, rng.bool(), rng.next()));
            }
            let Some((got, consumed)) = lib_parse(ctx, &bytes) else { return };
            let (exp, ec) = ref_parse(&bytes);
            if got != exp || consumed != ec {
                ctx.violation("entries or consumed length differ from the reference parser", format!("near-miss scaler tag {:02x?}: consumed {} vs {}, entries {} vs {}", tag, consumed, ec, got.len(), exp.len()), json!({"bytes": hex(&bytes)}));
                return;
            }
            ctx.count("near-miss scaler tags followed by data handled like the reference");
        }
    });
    ctx.require("streams parsed identically to the reference", 100);
    ctx.require("cut histories replayed", 1000);
}
