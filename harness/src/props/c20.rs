//! C20 – Chronobox timestamps CSV never reports a wrong time (real binary, hardware-FIFO model).
use crate::cb::*;
use crate::core::*;
use crate::midas::{self, Event};
use serde_json::json;
use std::path::{Path, PathBuf};
use std::process::Command;

pub fn prop() -> Prop {
    Prop {
        id: "C20",
        level: "exploration",
        rule: "streams of a hardware-FIFO model (24-bit 10 MHz counter, marker k at (k+1)*2^23 with top bit = k odd, scaler blocks interleaved) for 1..=4 boards, 0..=17 half wraps, 30..2000 edges incl. within +-4 ticks of a marker and ~10% displaced across a marker by < 2^22 ticks; cut into CBFn banks of 1..300 bytes, events (with foreign banks / events interleaved) and 1..=3 files given in shuffled order; single faults: dropped marker, duplicated marker, truncated tail (every length mod 4, inside a scaler block), corrupted word, missing marker 0, marker 0 with top bit set. The real alpha-g-chronobox-timestamps binary is run as a child process; its exit status and every CSV row (board, channel, edge, time or empty) are compared with the model's ground truth (true time of each edge). Non-trivial = distinct runs (hash of the streams) with >= 1 displaced edge or an injected fault. Also: the file boundary swept over every byte around and inside a scaler block; 0xFE-top near-miss scaler tags among the corrupted words. Round 4: the corrupted word also as the very first word of a board's stream, right after its leading scaler blocks, right before / after a marker and as the very last word. Round 6: a board sending 66 000..146 000 FIFO entries; up to 5 files with idle files (no Chronobox event) in the middle of the run. Round 8: a quiet board whose only entry is the counter-0 marker; more than 65 536 entries in front of the counter-0 marker. Round 9: a marker whose counter reads two more / less (parity, hence top bit, still consistent); every MIDAS event with the same serial number and header time.",
        assumptions: &["the hardware model (harness/src/cb.rs::stream) is faithful to the statement", "MIDAS writer produces files midasio accepts (checked: runs without fault succeed)"],
        profiles: release_only,
        shards: shards16,
        no_progress_cpu_s: None,
        run,
        finalize: None,
    }
}

pub fn bin(name: &str) -> PathBuf {
    Path::new(&verif_root()).join("target/repo/release").join(name)
}
pub fn workdir(ctx: &Ctx, case: u64) -> PathBuf {
    let d = Path::new(&verif_root()).join("target/tmp").join(format!("{}-work-{}", ctx.id, run_tag())).join(format!("{}-{}-{}", ctx.profile, ctx.shard, case));
    let _ = std::fs::remove_dir_all(&d);
    std::fs::create_dir_all(&d).unwrap();
    d
}

type Row = (String, u8, bool, Option<f64>);

/// ground truth of the model: rows after the first counter-0 marker
fn expected_rows(board: &str, items: &[Item]) -> Option<Vec<Row>> {
    let start = items.iter().position(|i| i.marker == Some(0))?;
    let ms: Vec<(usize, u32)> = items.iter().enumerate().filter_map(|(i, it)| it.marker.map(|m| (i, m))).collect();
    let mut out = Vec::new();
    for (i, item) in items.iter().enumerate().skip(start) {
        if let Some((ch, leading, t)) = item.edge {
            let prev = ms.iter().rev().find(|(j, _)| *j < i);
            let next = ms.iter().find(|(j, _)| *j > i);
            let time = match (prev, next) {
                // enclosed by two consecutive, consistent markers ...
                (Some((_, p)), Some((_, q))) if p + 1 == *q => {
                    // ... and on the right side of them: the true time lies in the interval the markers delimit
                    let lo = ((*p as u64) + 1) << 23;
                    let hi = ((*p as u64) + 2) << 23;
                    if t >= lo && t < hi {
                        Some((t & !1) as f64 / 1e7)
                    } else {
                        None
                    }
                }
                _ => None,
            };
            out.push((board.to_string(), ch, leading, time));
        }
    }
    Some(out)
}

fn run(ctx: &mut Ctx) {
    let exe = bin("alpha-g-chronobox-timestamps");
    if !exe.exists() {
        ctx.inconclusive(format!("binary {} not built", exe.display()));
        return;
    }
    let n = ctx.tier.pick(800, 100_000);
    ctx.cases("runs", n, |ctx, i, rng| {
        ctx.eval();
        let dir = workdir(ctx, i);
        let nb = 1 + rng.usize(4);
        let big = i % 40 == 12 || i % 194 == 13; // mostly fault-free runs (even i), now and then with an injected fault
        // fault plan: 0 none, then the single faults of the statement
        let fault = if i % 2 == 0 { 0 } else { 1 + rng.below(9) };
        let fault_board = rng.usize(nb);
        let mut expected: Vec<Row> = Vec::new();
        let mut streams: Vec<(String, Vec<u8>)> = Vec::new();
        let mut must_fail = false;
        let mut displaced_any = false;
        let end_with_marker = rng.below(3) == 0;
        let mut fault_desc = "none".to_string();
        for b in 0..nb {
            // (a quiet board: no wrap, no edge - its stream is the counter-0 marker alone, possibly among scaler blocks)
            let quiet = !big && rng.chance(0.08);
            let early_heavy = big && b == 0 && rng.bool(); // more than 65 536 entries in front of the counter-0 marker
            // (a busy board that is not early-heavy spreads its entries over 4..15 half wraps, so that every multiple of
            // 65 536 entries falls between two consecutive markers)
            let hw = if quiet || early_heavy { 1 } else if big && b == 0 { 4 + rng.below(12) as u32 } else if rng.chance(0.1) { 0 } else { 1 + rng.below(17) as u32 };
            // now and then one board is busy: more than 2^16 (and 2^17) FIFO entries in its stream
            let ne = if quiet { 0 } else if early_heavy { 140_000 + rng.usize(20_000) } else if big && b == 0 { 66_000 + rng.usize(80_000) } else if rng.chance(0.1) { 1000 + rng.usize(1000) } else { 30 + rng.usize(170) };
            let frac = *rng.pick(&[0.0, 0.1, 0.1, 0.3]);
            displaced_any |= frac > 0.0;
            let mut items = stream(rng, hw, ne, frac);
            if end_with_marker {
                while items.last().map(|i| i.marker.is_none()).unwrap_or(false) {
                    items.pop();
                }
            }
            let mut raw_tail: Vec<u8> = Vec::new();
            let must_fail_before = must_fail;
            if b == fault_board && fault != 0 {
                let markers: Vec<usize> = items.iter().enumerate().filter(|(_, it)| it.marker.is_some()).map(|(k, _)| k).collect();
                match fault {
                    1 if markers.len() >= 3 => {
                        // dropped marker (not the counter-0 one)
                        let k = markers[1 + rng.usize(markers.len() - 1)];
                        fault_desc = format!("dropped marker {}", items[k].marker.unwrap());
                        items.remove(k);
                    }
                    2 if !markers.is_empty() => {
                        // duplicated marker, inserted right after or a few items later (before the next marker)
                        let mi = rng.usize(markers.len());
                        let k = markers[mi];
                        let limit = markers.get(mi + 1).copied().unwrap_or(items.len());
                        let pos = (k + 1 + rng.usize(6)).min(limit);
                        let c = items[k].marker.unwrap();
                        fault_desc = format!("duplicated marker {}", c);
                        items.insert(pos, Item { bytes: marker_word(c).to_vec(), edge: None, marker: Some(c) });
                    }
                    3 => {
                        // truncated tail: stream ends inside an entry
                        let l = 1 + rng.usize(3);
                        raw_tail = ts_word(3, false, 12345)[..l].to_vec();
                        fault_desc = format!("tail of {} byte(s) of an entry", l);
                        must_fail = true;
                    }
                    4 => {
                        let blk = scaler_block(rng);
                        let l = 4 + rng.usize(240);
                        raw_tail = blk[..l].to_vec();
                        fault_desc = format!("tail inside a scaler block ({} of 244 bytes)", l);
                        must_fail = true;
                    }
                    5 => {
                        // corrupted word: neither timestamp, marker nor start of a scaler block
                        // anywhere, and often at the places a lenient reader would special-case: the very first word,
                        // right after the leading scaler blocks, right before / after a marker, the very last word
                        let k = match rng.below(8) {
                            0 | 1 => 0,
                            2 => items.iter().position(|it| it.edge.is_some() || it.marker.is_some()).unwrap_or(0),
                            3 => items.len(),
                            4 if !markers.is_empty() => markers[rng.usize(markers.len())],
                            5 if !markers.is_empty() => markers[rng.usize(markers.len())] + 1,
                            _ => rng.usize(items.len() + 1),
                        };
                        let mut bad = [rng.next() as u8, rng.next() as u8, rng.next() as u8, *rng.pick(&[0x00u8, 0x7F, 0x80 | 59, 0x80 | 126, 0xFD, 0x3C])];
                        if rng.chance(0.4) {
                            // near-miss scaler tags: top byte 0xFE but not the tag 3C 00 00 FE
                            bad = *rng.pick(&[[0x3C, 0, 1, 0xFE], [0x3C, 1, 0, 0xFE], [1, 0, 0, 0xFE], [0x3D, 0, 0, 0xFE], [0x3B, 0, 0, 0xFE], [0, 0, 0, 0xFE], [2, 0, 0, 0xFE], [0x3C, 0, 0x80, 0xFE], [0xFF, 0xFF, 0xFF, 0xFE]]);
                        }
                        fault_desc = format!("corrupted word {:02x?} at item {}", bad, k);
                        items.insert(k, Item { bytes: bad.to_vec(), edge: None, marker: None });
                        must_fail = true;
                    }
                    6 => {
                        // missing counter-0 marker
                        if let Some(k) = items.iter().position(|it| it.marker == Some(0)) {
                            items.remove(k);
                        }
                        fault_desc = "missing counter-0 marker".into();
                        must_fail = true;
                    }
                    7 if !markers.is_empty() => {
                        // counter-0 marker with the top bit set
                        let k = items.iter().position(|it| it.marker == Some(0)).unwrap();
                        let mut w = marker_word(0);
                        w[2] |= 0x80;
                        items[k].bytes = w.to_vec();
                        fault_desc = "counter-0 marker with top bit set".into();
                        must_fail = true;
                    }
                    9 if markers.len() >= 3 => {
                        // a marker whose counter is off by two (its top bit, the parity of the counter, still fits): the
                        // stream is well formed, the edges next to that marker are no longer enclosed by consecutive markers
                        let k = markers[1 + rng.usize(markers.len() - 1)];
                        let c = items[k].marker.unwrap();
                        let c2 = if rng.bool() || c < 3 { c + 2 } else { c - 2 };
                        items[k].bytes = marker_word(c2).to_vec();
                        items[k].marker = Some(c2);
                        fault_desc = format!("marker {} reads {}", c, c2);
                    }
                    8 => {
                        // bare scaler tag at the very end (incomplete block of 4 bytes)
                        raw_tail = TAG.to_vec();
                        fault_desc = "bare scaler tag at the end".into();
                        must_fail = true;
                    }
                    _ => {
                        if markers.is_empty() {
                            fault_desc = "none (stream without markers)".into();
                        }
                    }
                }
            }
            let name = format!("cb0{}", b + 1);
            let mut bytes: Vec<u8> = items.iter().flat_map(|i| i.bytes.clone()).collect();
            bytes.extend(raw_tail);
            if bytes.is_empty() {
                // a board that sent nothing simply does not appear: whatever was planned for it is void
                must_fail = must_fail_before;
                if b == fault_board {
                    fault_desc = "none (fault board sent nothing)".into();
                }
            } else {
                match expected_rows(&name, &items) {
                    Some(r) => expected.extend(r),
                    None => must_fail = true, // no counter-0 marker at all
                }
            }
            streams.push((format!("CBF{}", b + 1), bytes));
        }
        // cut into banks / events / files
        // 1..=3 files, now and then up to 5 of which some in the middle receive no Chronobox event at all (idle sub-runs)
        let nfiles = if rng.chance(0.15) { 3 + rng.usize(3) } else { 1 + rng.usize(3) };
        let mut files: Vec<Vec<Event>> = (0..nfiles).map(|_| Vec::new()).collect();
        let mut pos = vec![0usize; nb];
        let mut serial = 0;
        let frozen_serial = rng.chance(0.25); // every event carries serial number 0 (and the same header time)
        let mut fidx = 0;
        let mut idle_files = 0u64;
        let maxlen = if big { *rng.pick(&[5000usize, 60_000]) } else { *rng.pick(&[1usize, 3, 4, 5, 300, 300, 5000]) };
        loop {
            let mut banks = Vec::new();
            for (b, (name, bytes)) in streams.iter().enumerate() {
                if pos[b] < bytes.len() && rng.below(4) != 0 {
                    let l = (1 + rng.usize(maxlen)).min(bytes.len() - pos[b]);
                    banks.push((name.clone(), bytes[pos[b]..pos[b] + l].to_vec()));
                    pos[b] += l;
                    // the same board twice in one event
                    if rng.chance(0.1) && pos[b] < bytes.len() {
                        let l = (1 + rng.usize(maxlen)).min(bytes.len() - pos[b]);
                        banks.push((name.clone(), bytes[pos[b]..pos[b] + l].to_vec()));
                        pos[b] += l;
                    }
                }
            }
            if rng.chance(0.1) {
                banks.push(("XXXX".into(), rng.bytes(7))); // foreign bank inside a chronobox event
            }
            if !frozen_serial {
                serial += 1;
            }
            files[fidx].push(Event { id: 4, serial, timestamp: 0, banks });
            if rng.chance(0.15) {
                // events of other kinds interleaved, even with CBF-named banks: must be ignored
                serial += 1;
                files[fidx].push(Event { id: *rng.pick(&[1u16, 8, 2]), serial, timestamp: 0, banks: vec![("CBF1".into(), vec![0xFF, 0xFF, 0xFF, 0xFF]), ("ATAT".into(), vec![1, 2, 3])] });
            }
            if rng.below(10) == 0 && fidx + 1 < nfiles {
                fidx += 1;
                if fidx + 1 < nfiles && rng.chance(0.4) {
                    // leave this file idle: no event, or only events of other kinds
                    if rng.bool() {
                        serial += 1;
                        files[fidx].push(Event { id: *rng.pick(&[1u16, 8]), serial, timestamp: 0, banks: vec![("ATAT".into(), vec![1, 2, 3])] });
                    }
                    fidx += 1;
                    idle_files += 1;
                }
            }
            if pos.iter().zip(&streams).all(|(p, s)| *p == s.1.len()) {
                break;
            }
        }
        ctx.count_n("files in the middle of a run without any Chronobox event", idle_files);
        if big {
            ctx.count("runs with a board sending more than 65 536 FIFO entries");
        }
        let mut args = Vec::new();
        for (k, evs) in files.iter().enumerate() {
            let ext = if rng.chance(0.3) { "mid.lz4" } else { "mid" };
            let p = dir.join(format!("f{}.{}", k, ext));
            midas::write(&p, &midas::file_bytes(4242, 100 + 10 * k as u32, 100 + 10 * k as u32 + 9 + rng.below(2) as u32, evs));
            args.push(p);
        }
        rng.shuffle(&mut args);
        let out_path = dir.join("out");
        let out = Command::new(&exe).args(&args).arg("-o").arg(&out_path).output();
        let csv_path = dir.join("out.csv");
        let describe = || json!({"boards": nb, "fault": fault_desc, "files": args.iter().map(|p| p.file_name().unwrap().to_string_lossy().to_string()).collect::<Vec<_>>(), "streams": streams.iter().map(|(n, b)| json!([n, hex(b)])).collect::<Vec<_>>(), "note": "replay regenerates the run from seed/case"});
        let Ok(out) = out else {
            ctx.inconclusive("could not spawn the binary".into());
            return;
        };
        if i < 2 {
            ctx.sample(json!({"kind": "chronobox run", "boards": nb, "fault": fault_desc, "files": nfiles, "stream_bytes": streams.iter().map(|s| s.1.len()).collect::<Vec<_>>(), "expected_rows": expected.len(), "must_fail": must_fail}));
        }
        let mut d = Digest::new();
        for (_, b) in &streams {
            d.bytes(b);
        }
        if displaced_any || fault != 0 {
            ctx.nontrivial(d.0);
        }
        if must_fail {
            if out.status.success() {
                ctx.violation("program succeeded on a stream that must be refused", format!("fault: {}", fault_desc), describe());
            } else if csv_path.exists() {
                ctx.violation("CSV written although the program failed", format!("fault: {}", fault_desc), describe());
            } else {
                ctx.count(&format!("refused as required: {}", fault_desc.split(|c: char| c.is_ascii_digit() || c == '[' || c == '(').next().unwrap_or("").trim()));
            }
            let _ = std::fs::remove_dir_all(&dir);
            return;
        }
        if !out.status.success() {
            ctx.violation("program failed on a well-formed stream", format!("fault: {}; stderr: {}", fault_desc, String::from_utf8_lossy(&out.stderr).lines().last().unwrap_or("")), describe());
            let _ = std::fs::remove_dir_all(&dir);
            return;
        }
        let csv = std::fs::read_to_string(&csv_path).unwrap_or_default();
        let mut lines = csv.lines();
        let (h1, h2, h3) = (lines.next().unwrap_or(""), lines.next().unwrap_or(""), lines.next().unwrap_or(""));
        // (the csv writer emits the column header together with the first record)
        if !h1.starts_with("# ") || !h2.starts_with("# ") || (h3.split(',').count() != 4 && !(h3.is_empty() && expected.is_empty())) {
            ctx.violation("unexpected CSV header", format!("{:?} {:?} {:?}", h1, h2, h3), describe());
            return;
        }
        let rows: Vec<Row> = lines
            .map(|l| {
                let f: Vec<&str> = l.split(',').collect();
                (f[0].to_string(), f[1].parse().unwrap_or(255), f.get(2) == Some(&"true"), if f.get(3).map(|s| s.is_empty()).unwrap_or(true) { None } else { f[3].parse().ok() })
            })
            .collect();
        ctx.count_n("rows compared", rows.len().min(expected.len()) as u64);
        ctx.count_n("rows with a time", expected.iter().filter(|r| r.3.is_some()).count() as u64);
        ctx.count_n("rows with an empty time", expected.iter().filter(|r| r.3.is_none()).count() as u64);
        if rows != expected {
            let k = rows.iter().zip(&expected).position(|(a, b)| a != b).unwrap_or(rows.len().min(expected.len()));
            let kind = if rows.len() != expected.len() && rows.iter().zip(&expected).all(|(a, b)| a == b) {
                if rows.len() < expected.len() { "rows missing from the CSV" } else { "extra rows in the CSV" }
            } else {
                match (rows.get(k), expected.get(k)) {
                    (Some(a), Some(b)) if (a.0.clone(), a.1, a.2) == (b.0.clone(), b.1, b.2) => match (a.3, b.3) {
                        (Some(_), Some(_)) => "non-empty chronobox_time differs from the true time of the edge",
                        (Some(_), None) => "time reported for an edge that is not enclosed by consistent markers / is on the wrong side",
                        _ => "time withheld for an edge that is enclosed by consecutive markers on the right side",
                    },
                    _ => "row with wrong board / channel / edge or out of order",
                }
            };
            ctx.violation(kind, format!("fault: {}; {} rows, expected {}; first difference at row {}: got {:?}, expected {:?}", fault_desc, rows.len(), expected.len(), k, rows.get(k), expected.get(k)), describe());
        } else {
            ctx.count(&format!("runs matching the model ({})", if fault == 0 { "no fault" } else { "with a tolerated fault" }));
        }
        let _ = std::fs::remove_dir_all(&dir);
    });
    // ---- every byte position of a file boundary around and inside a scaler block (and inside entries): the run is
    // the same stream each time, only the cut between file 0 and file 1 moves
    ctx.cases("file-cut-sweep", ctx.tier.pick(2, 8), |ctx, i, rng| {
        let hw = 3 + rng.below(4) as u32;
        let mut items = stream(rng, hw, 40, 0.1);
        // make sure there is a scaler block somewhere after marker 0
        let m0 = items.iter().position(|it| it.marker == Some(0)).unwrap();
        let at = m0 + 1 + rng.usize(items.len() - m0 - 1);
        items.insert(at, Item { bytes: scaler_block(rng), edge: None, marker: None });
        let expected = expected_rows("cb01", &items).unwrap();
        let bytes: Vec<u8> = items.iter().flat_map(|it| it.bytes.clone()).collect();
        let block_start: usize = items[..at].iter().map(|it| it.bytes.len()).sum();
        let lo = block_start.saturating_sub(9);
        let hi = (block_start + 244 + 9).min(bytes.len());
        for cut in lo..=hi {
            ctx.eval();
            let dir = workdir(ctx, i * 1000 + cut as u64);
            let mk = |data: &[u8], t0: u32, name: &str| {
                let mut evs = Vec::new();
                let mut serial = 0;
                for c in data.chunks(97) {
                    serial += 1;
                    evs.push(Event { id: 4, serial, timestamp: 0, banks: vec![("CBF1".to_string(), c.to_vec())] });
                }
                let p = dir.join(name);
                midas::write(&p, &midas::file_bytes(777, t0, t0 + 1, &evs));
                p
            };
            let f0 = mk(&bytes[..cut], 100, "a.mid");
            let f1 = mk(&bytes[cut..], 101, "b.mid.lz4");
            let out = Command::new(&exe).arg(&f1).arg(&f0).arg("-o").arg(dir.join("out")).output();
            let Ok(out) = out else { return };
            let csv = std::fs::read_to_string(dir.join("out.csv")).unwrap_or_default();
            let rows: Vec<Row> = csv.lines().skip(3).map(|l| { let f: Vec<&str> = l.split(',').collect(); (f[0].to_string(), f[1].parse().unwrap_or(255), f.get(2) == Some(&"true"), if f.get(3).map(|s| s.is_empty()).unwrap_or(true) { None } else { f[3].parse().ok() }) }).collect();
            let _ = std::fs::remove_dir_all(&dir);
            if !out.status.success() {
                ctx.violation("program failed on a well-formed stream", format!("file boundary at byte {} of the board stream ({} bytes into a scaler block starting at {}): {}", cut, cut as i64 - block_start as i64, block_start, String::from_utf8_lossy(&out.stderr).lines().last().unwrap_or("")), json!({"stream": hex(&bytes), "cut": cut}));
                return;
            }
            if rows != expected {
                ctx.violation("rows change with the position of the file boundary", format!("file boundary at byte {}: {} rows, expected {}", cut, rows.len(), expected.len()), json!({"stream": hex(&bytes), "cut": cut}));
                return;
            }
            ctx.count("file-boundary positions swept around / inside a scaler block");
        }
    });
    ctx.require("rows compared", 1000);
    ctx.require("runs matching the model (no fault)", 10);
}
