//! C08 – channel identity is unambiguous: names, boards and detector elements biject.
use crate::core::*;
use crate::refs::PWB_BOARDS;
use alpha_g_detector::alpha16::aw_map::TpcWirePosition;
use alpha_g_detector::alpha16::{self, Adc32ChannelId};
use alpha_g_detector::midas::*;
use alpha_g_detector::padwing::map::*;
use alpha_g_detector::padwing::{self, AfterId, PadChannelId};
use alpha_g_physics::verif_hooks as vh;
use serde_json::json;
use std::collections::{HashMap, HashSet};
use std::f64::consts::PI;

pub fn prop() -> Prop {
    Prop {
        id: "C08",
        level: "exploration",
        rule: "all 128^4 ASCII 4-byte names through MainEventBankName and every specific *BankName parser against a transcribed grammar (exhaustive, both tiers), names of length 0..=6 and non-ASCII sampled; distinct accepted names must denote distinct (kind, board, channel); runs 0..=20000, 2^32-1, 2^32-2 and random u32 x all 8 Alpha16 boards x 32 channels and x all 71 PadWing boards (bijection onto 256 wires / 64 board slots, errors below 2941 / 4418), full 18432-pad bijection at epoch boundaries (quick) or every 97th run (thorough), simulation == run 5000; geometry probe: wire w + pad pulse in column c' gives an avalanche iff c' = floor(phi_w / (2 pi / 32)). Non-trivial = accepted names + (run, board) pairs with a map + geometry probes that produced an avalanche (counted by construction / hash). Also: history independence of the maps (reference tables from a fresh thread; monitored calls board-major, every run right after every other run across the epochs; composition with TpcPwbPosition / PwbPadPosition), names with signs / leading zeros / spaces, every arrangement of multi-byte characters in 4 bytes. Round 4: every run as the first question of a brand-new thread and right after exactly one other run (196 ordered pairs x 71 boards), against the reference table. Round 5: look-alike characters (low-byte, case and width aliases) in every position of ~400 valid names; 8 threads asking the pad map at once for runs of different epochs. Round 6: a board asked, then exactly 255..65 537 changes of run number on another board, then asked again in another epoch; consecutive (run, board) pairs crafted to collide under xor / sum / difference of the run number with any 4-byte window of the MAC. Round 7: every valid name with one more character in front / behind; pad, wire, pad questions of a new thread for every ordered pair of runs. Round 9: every integer literal of the sources (both byte orders) as a PadWing device id: accepted iff documented, and denoting the board of that name; MAC and name constructors agree for all 71 boards.",
        assumptions: &["grammar and board tables transcribed into the harness (A16 names, 71 PWB boards)", "geometry probe uses the public phi() functions as ground truth for the angular position of wires and pad columns"],
        profiles: release_only,
        shards: shards16,
        no_progress_cpu_s: None,
        run,
        finalize: None,
    }
}

const A16: [&str; 8] = ["09", "10", "11", "12", "13", "14", "16", "18"];

/// the documented grammar: returns (kind, board, channel) of an accepted main-event name
fn spec(s: &[u8; 4]) -> Option<String> {
    let st = std::str::from_utf8(s).ok()?;
    let mid = &st[1..3];
    match s[0] {
        b'B' if A16.contains(&mid) && (s[3].is_ascii_digit() || (b'A'..=b'F').contains(&s[3])) => Some(format!("bv:{}:{}", mid, (s[3] as char).to_digit(16).unwrap())),
        b'C' if A16.contains(&mid) && (s[3].is_ascii_digit() || (b'A'..=b'V').contains(&s[3])) => Some(format!("aw:{}:{}", mid, (s[3] as char).to_digit(32).unwrap())),
        b'P' if s[1] == b'C' && PWB_BOARDS.iter().any(|b| b.0 == &st[2..4]) => Some(format!("pwb:{}", &st[2..4])),
        _ => match st {
            "ATAT" => Some("trg".into()),
            "TRBA" => Some("trb3".into()),
            "MCVX" => Some("mcvx".into()),
            _ => None,
        },
    }
}
fn got(st: &str) -> Option<String> {
    match MainEventBankName::try_from(st) {
        Err(_) => None,
        Ok(MainEventBankName::Trg(_)) => Some("trg".into()),
        Ok(MainEventBankName::Trb3(_)) => Some("trb3".into()),
        Ok(MainEventBankName::McVertex(_)) => Some("mcvx".into()),
        Ok(MainEventBankName::Padwing(p)) => Some(format!("pwb:{}", p.board_id().name())),
        Ok(MainEventBankName::Alpha16(Alpha16BankName::A16(b))) => Some(format!("bv:{}:{}", b.board_id().name(), (0..16u8).find(|c| alpha16::Adc16ChannelId::try_from(*c).unwrap() == b.channel_id()).unwrap())),
        Ok(MainEventBankName::Alpha16(Alpha16BankName::A32(b))) => Some(format!("aw:{}:{}", b.board_id().name(), (0..32u8).find(|c| Adc32ChannelId::try_from(*c).unwrap() == b.channel_id()).unwrap())),
    }
}
/// consistency of the specific parsers with the main one
fn specific_ok(st: &str, g: &Option<String>) -> bool {
    let kind = g.as_ref().map(|s| s.split(':').next().unwrap().to_string());
    let k = kind.as_deref();
    Adc16BankName::try_from(st).is_ok() == (k == Some("bv"))
        && Adc32BankName::try_from(st).is_ok() == (k == Some("aw"))
        && Alpha16BankName::try_from(st).is_ok() == (k == Some("bv") || k == Some("aw"))
        && PadwingBankName::try_from(st).is_ok() == (k == Some("pwb"))
        && TriggerBankName::try_from(st).is_ok() == (k == Some("trg"))
        && Trb3BankName::try_from(st).is_ok() == (k == Some("trb3"))
        && McVertexBankName::try_from(st).is_ok() == (k == Some("mcvx"))
        && ChronoboxBankName::try_from(st).is_ok() == matches!(st, "CBF1" | "CBF2" | "CBF3" | "CBF4")
        && Seq2BankName::try_from(st).is_ok() == (st == "SEQ2")
}

fn pwb_index(p: TpcPwbPosition) -> usize {
    let c = (0..8).find(|i| TpcPwbColumn::try_from(*i).unwrap() == p.column()).unwrap();
    let r = (0..8).find(|i| TpcPwbRow::try_from(*i).unwrap() == p.row()).unwrap();
    c * 8 + r
}

fn check_run(ctx: &mut Ctx, run: u32, full_pads: bool, a16: &[alpha16::BoardId], pwb: &[padwing::BoardId]) -> Option<(Vec<usize>, Vec<Option<usize>>)> {
    ctx.eval();
    // wires
    let mut seen = [false; 256];
    let mut wire_map = Vec::with_capacity(256);
    let mut ok = 0;
    for b in a16 {
        for c in 0..32u8 {
            match TpcWirePosition::try_new(run, *b, Adc32ChannelId::try_from(c).unwrap()) {
                Ok(w) => {
                    let i = usize::from(w);
                    if seen[i] {
                        ctx.violation("wire map not injective", format!("run {} wire {} hit twice", run, i), json!({"run": run}));
                        return None;
                    }
                    seen[i] = true;
                    ok += 1;
                    wire_map.push(i);
                }
                Err(_) => wire_map.push(usize::MAX),
            }
        }
    }
    let expect_wires = run >= 2941;
    if expect_wires && ok != 256 {
        ctx.violation("wire map not a bijection onto 256 wires", format!("run {} maps {} of 256", run, ok), json!({"run": run}));
        return None;
    }
    if !expect_wires && ok != 0 {
        ctx.violation("wire map guessed for a run before the first map", format!("run {} ok {}", run, ok), json!({"run": run}));
        return None;
    }
    if expect_wires {
        ctx.count_n("(run, alpha16 board) pairs with a map", 8);
        ctx.distinct_enum += 8;
    }
    // padwing boards
    let mut pseen = [false; 64];
    let mut pmap = Vec::with_capacity(71);
    let mut pok = 0;
    for b in pwb {
        match TpcPwbPosition::try_new(run, *b) {
            Ok(p) => {
                let i = pwb_index(p);
                if pseen[i] {
                    ctx.violation("padwing board map not injective", format!("run {} slot {} hit twice", run, i), json!({"run": run}));
                    return None;
                }
                pseen[i] = true;
                pok += 1;
                pmap.push(Some(i));
            }
            Err(_) => pmap.push(None),
        }
    }
    let expect_pads = run >= 4418;
    if expect_pads && pok != 64 {
        ctx.violation("padwing board map not a bijection onto 64 slots", format!("run {} maps {} of 64", run, pok), json!({"run": run}));
        return None;
    }
    if !expect_pads && pok != 0 {
        ctx.violation("padwing map guessed for a run before the first map", format!("run {} ok {}", run, pok), json!({"run": run}));
        return None;
    }
    if expect_pads {
        ctx.count_n("(run, padwing board) pairs with a map", 64);
        ctx.distinct_enum += 64;
    }
    if full_pads {
        let mut seen = vec![false; 32 * 576];
        let mut n = 0;
        for b in pwb {
            for chip in ['A', 'B', 'C', 'D'] {
                let a = AfterId::try_from(chip).unwrap();
                for ch in 1..=72u16 {
                    let pc = PadChannelId::try_from(ch).unwrap();
                    match TpcPadPosition::try_new(run, *b, a, pc) {
                        Ok(p) => {
                            let i = usize::from(p.column) * 576 + usize::from(p.row);
                            if seen[i] {
                                ctx.violation("pad map not injective", format!("run {} pad {:?} hit twice", run, (usize::from(p.column), usize::from(p.row))), json!({"run": run}));
                                return None;
                            }
                            seen[i] = true;
                            n += 1;
                        }
                        Err(_) => {}
                    }
                }
            }
        }
        if expect_pads && n != 18432 {
            ctx.violation("pad map not a bijection onto 18432 pads", format!("run {} maps {}", run, n), json!({"run": run}));
            return None;
        }
        if !expect_pads && n != 0 {
            ctx.violation("pad map guessed before the first map", format!("run {} maps {}", run, n), json!({"run": run}));
            return None;
        }
        ctx.count("runs with the full 18432-pad bijection checked");
    }
    Some((wire_map, pmap))
}

fn run(ctx: &mut Ctx) {
    let a16: Vec<_> = A16.iter().map(|n| alpha16::BoardId::try_from(*n).unwrap()).collect();
    let pwb: Vec<_> = PWB_BOARDS.iter().map(|n| padwing::BoardId::try_from(n.0).unwrap()).collect();
    // ---- board tables: MAC / device id cross-checks
    ctx.cases("tables", 1, |ctx, _i, _rng| {
        let mut devs = HashSet::new();
        for ((name, mac), b) in PWB_BOARDS.iter().zip(&pwb) {
            ctx.eval();
            let dev = crate::refs::pwb_device_id(mac);
            if b.mac_address() != *mac || b.device_id() != dev || b.name() != *name || !devs.insert(dev) || padwing::BoardId::try_from(*mac).ok() != Some(*b) || padwing::BoardId::try_from(dev).ok() != Some(*b) {
                ctx.violation("padwing board table inconsistent with the transcribed table", format!("board {}", name), json!({"board": name}));
            }
        }
        for ((name, mac), b) in crate::enc::A16_MACS.iter().zip(&a16) {
            ctx.eval();
            if b.mac_address() != *mac || b.name() != *name || alpha16::BoardId::try_from(*mac).ok() != Some(*b) {
                ctx.violation("alpha16 board table inconsistent with the transcribed table", format!("board {}", name), json!({"board": name}));
            }
        }
        // all 2-character strings through the board parsers
        for a in 0..128u8 {
            for b in 0..128u8 {
                let s = [a, b];
                let st = std::str::from_utf8(&s).unwrap();
                ctx.eval();
                if alpha16::BoardId::try_from(st).is_ok() != A16.contains(&st) || padwing::BoardId::try_from(st).is_ok() != PWB_BOARDS.iter().any(|x| x.0 == st) {
                    ctx.violation("board name parser accepts/rejects against the table", format!("{:?}", st), json!({"name": st}));
                }
            }
        }
        for n in ["cb01", "cb02", "cb03", "cb04"] {
            if alpha_g_detector::chronobox::BoardId::try_from(n).map(|b| b.name().to_string()).ok() != Some(n.to_string()) {
                ctx.violation("chronobox board name rejected", n.to_string(), json!({"name": n}));
            }
        }
        for n in ["cb00", "cb05", "CB01", "cb1", "", "cb011"] {
            if alpha_g_detector::chronobox::BoardId::try_from(n).is_ok() {
                ctx.violation("chronobox board name wrongly accepted", n.to_string(), json!({"name": n}));
            }
        }
    });
    // ---- all 128^4 ASCII names (exhaustive): case = first byte
    ctx.cases("names", 128, |ctx, a, _rng| {
        let a = a as u8;
        let mut acc = 0u64;
        let mut denotes: HashMap<String, String> = HashMap::new();
        for b in 0..128u8 {
            for c in 0..128u8 {
                for d in 0..128u8 {
                    let s = [a, b, c, d];
                    let st = std::str::from_utf8(&s).unwrap();
                    let g = got(st);
                    let e = spec(&s);
                    if g != e {
                        ctx.violation(if g.is_some() && e.is_none() { "undocumented bank name accepted" } else if g.is_none() { "documented bank name rejected" } else { "bank name denotes the wrong channel" }, format!("{:?}: got {:?}, grammar says {:?}", st, g, e), json!({"name": st}));
                        return;
                    }
                    // cheap pre-filter: the specific parsers are only consulted for plausible first letters and for accepted names
                    if g.is_some() || matches!(a, b'A' | b'B' | b'C' | b'P' | b'T' | b'M' | b'S') {
                        if !specific_ok(st, &g) {
                            ctx.violation("specific bank-name parser disagrees with MainEventBankName / the grammar", format!("{:?}", st), json!({"name": st}));
                            return;
                        }
                    }
                    if let Some(k) = g {
                        acc += 1;
                        if let Some(prev) = denotes.insert(k.clone(), st.to_string()) {
                            ctx.violation("two names denote the same channel", format!("{:?} and {:?} -> {}", prev, st, k), json!({"names": [prev, st]}));
                            return;
                        }
                        if ctx.samples.len() < 3 && d == b'5' {
                            ctx.sample(json!({"kind": "accepted bank name", "name": st, "denotes": k}));
                        }
                    }
                }
            }
        }
        ctx.eval_n(1 << 21);
        ctx.count_n("ASCII 4-byte names enumerated (exhaustive 128^4)", 1 << 21);
        ctx.count_n("names accepted", acc);
        ctx.distinct_enum += acc;
    });
    // ---- other lengths and non-ASCII
    let n = ctx.tier.pick(200_000, 20_000_000);
    ctx.cases("oddnames", n, |ctx, _i, rng| {
        ctx.eval();
        let base = *rng.pick(&["C09A", "B1212", "PC00", "ATAT", "TRBA", "MCVX", "CBF1", "SEQ2", "C18V", "PC91", "B09F"]);
        let mut chars: Vec<char> = base.chars().collect();
        match rng.below(6) {
            0 => {
                chars.pop();
            }
            1 => chars.push(*rng.pick(&['0', 'A', ' ', 'é', '\0'])),
            2 => {
                let k = rng.usize(chars.len());
                chars[k] = *rng.pick(&['é', 'ß', '٣', '１', 'Ａ', '\u{10FFFF}', 'a', 'v', '٠']);
            }
            3 => {
                let k = rng.usize(chars.len());
                chars.insert(k, *rng.pick(&['é', '0', 'C', '１']));
            }
            4 => chars.clear(),
            _ => {
                let k = rng.usize(chars.len());
                chars[k] = char::from_u32(rng.below(0x250) as u32).unwrap_or('x');
            }
        }
        let st: String = chars.into_iter().collect();
        let e = if st.len() == 4 && st.is_ascii() { spec(&[st.as_bytes()[0], st.as_bytes()[1], st.as_bytes()[2], st.as_bytes()[3]]) } else { None };
        match guard(|| (got(&st), specific_ok(&st, &got(&st)))) {
            Ok((g, ok)) => {
                if g != e || !ok {
                    ctx.violation("odd-length / non-ASCII name handled against the grammar", format!("{:?}: got {:?} want {:?}", st, g, e), json!({"name": st}));
                }
                ctx.count(if st.is_ascii() { "sampled ASCII names of other lengths / mutated" } else { "sampled non-ASCII names" });
            }
            Err(p) => ctx.panic_violation("bank name parser", &p, json!({"name": st})),
        }
    });
    ctx.cases("utf8-4byte", 1, |ctx, _i, _rng| {
        for st in super::c01::four_byte_utf8_strings() {
            ctx.eval();
            match guard(|| (got(&st), specific_ok(&st, &got(&st)))) {
                Ok((None, true)) => ctx.count("4-byte-class strings with multi-byte characters rejected"),
                Ok((g, ok)) => ctx.violation("non-ASCII name accepted or specific parser disagrees", format!("{:?}: {:?} {}", st, g, ok), json!({"name": st})),
                Err(p) => ctx.panic_violation("bank name parser", &p, json!({"name": st, "bytes": hex(st.as_bytes())})),
            }
        }
    });
    // ---- every integer literal of the library sources as a PadWing device id, and every 6-byte window of consecutive
    // small literals is not enumerable - but a device id is: accepted iff it is one of the 71 documented ones, and the
    // board it denotes equals the board of that name
    let dict = super::source_dictionary("detector/src");
    ctx.cases("device-id-dictionary", 1, |ctx, _i, _rng| {
        for &v in dict.iter().filter(|v| **v <= u32::MAX as u64) {
            for cand in [v as u32, (v as u32).swap_bytes()] {
                ctx.eval();
                let known = PWB_BOARDS.iter().find(|b| crate::refs::pwb_device_id(&b.1) == cand);
                match (guard(|| padwing::BoardId::try_from(cand).ok()), known) {
                    (Ok(Some(b)), Some(k)) if b.name() == k.0 && Some(b) == padwing::BoardId::try_from(k.0).ok() => ctx.count("device ids from the sources that denote their documented board"),
                    (Ok(None), None) => ctx.count("other source constants rejected as device ids"),
                    (Ok(got), _) => ctx.violation("device id accepted that is not documented, or denoting another board than its name", format!("device id {} -> {:?}, documented: {:?}", cand, got.map(|b| b.name().to_string()), known.map(|k| k.0)), json!({"device_id": cand})),
                    (Err(p), _) => ctx.panic_violation("padwing::BoardId::try_from(u32)", &p, json!({"device_id": cand})),
                }
            }
        }
        // the same through the MAC constructor for every documented MAC: the board equals the board of that name
        for k in PWB_BOARDS.iter() {
            ctx.eval();
            let by_mac = padwing::BoardId::try_from(k.1).ok();
            let by_name = padwing::BoardId::try_from(k.0).ok();
            if by_mac.is_none() || by_mac != by_name {
                ctx.violation("one board name denotes two boards depending on the constructor", format!("board {}", k.0), json!({"board": k.0}));
            }
        }
    });
    // ---- characters that are a documented ASCII character once truncated to their low byte (U+0142 -> 'B', ...), or once
    // case-folded / width-folded: each character of each of ~400 valid names replaced by such a look-alike
    ctx.cases("char-aliases", 16, |ctx, part, _rng| {
        let mut valid: Vec<String> = vec!["ATAT".into(), "TRBA".into(), "MCVX".into()];
        for b in A16.iter() {
            for d in ['0', '9', 'A', 'F', 'G', 'V'] {
                valid.push(format!("C{}{}", b, d));
                valid.push(format!("B{}{}", b, d));
            }
        }
        for b in PWB_BOARDS.iter().step_by(3) {
            valid.push(format!("PC{}", b.0));
        }
        for n in 1..=4 {
            valid.push(format!("CBF{}", n));
        }
        for (k, name) in valid.iter().enumerate() {
            if k as u64 % 16 != part {
                continue;
            }
            // the valid name with one more character in front / behind (a comparison on the first or last 4 bytes only)
            for extra in ['\0', ' ', '0', 'A', 'a', '\n', 'é', '1', '_'] {
                for st in [format!("{}{}", name, extra), format!("{}{}", extra, name), format!("{}{}{}", name, extra, extra)] {
                    ctx.eval();
                    match guard(|| (got(&st), specific_ok(&st, &got(&st)))) {
                        Ok((None, true)) => ctx.count("valid names with an extra character rejected"),
                        Ok((g, ok)) => ctx.violation("undocumented bank name accepted", format!("{:?} (a valid name with an extra character): got {:?}, specific parsers consistent: {}", st, g, ok), json!({"name": st, "bytes": hex(st.as_bytes())})),
                        Err(p) => ctx.panic_violation("bank name parser", &p, json!({"name": st, "bytes": hex(st.as_bytes())})),
                    }
                }
            }
            let chars: Vec<char> = name.chars().collect();
            for pos in 0..chars.len() {
                let c = chars[pos] as u32;
                let mut alts: Vec<u32> = [1u32, 2, 3, 5, 0x10, 0x1F, 0x20, 0xFF, 0x100, 0x1F6, 0x10FF].iter().map(|k| c + 256 * k).collect();
                alts.push(0xFF00 + c - 0x20); // fullwidth form
                alts.push(c + 0x10000);
                alts.push(c | 0x80);
                if (chars[pos]).is_ascii_uppercase() {
                    alts.push(c + 32); // lower case
                }
                for a in alts {
                    let Some(ch) = char::from_u32(a) else { continue };
                    let mut v = chars.clone();
                    v[pos] = ch;
                    let st: String = v.into_iter().collect();
                    ctx.eval();
                    let e = if st.len() == 4 && st.is_ascii() { spec(&[st.as_bytes()[0], st.as_bytes()[1], st.as_bytes()[2], st.as_bytes()[3]]) } else { None };
                    match guard(|| (got(&st), specific_ok(&st, &got(&st)))) {
                        Ok((g, true)) if g == e => ctx.count("look-alike names handled per the grammar"),
                        Ok((g, ok)) => ctx.violation("undocumented bank name accepted", format!("{:?} (a look-alike of {:?}): got {:?}, grammar {:?}, specific parsers consistent: {}", st, name, g, e, ok), json!({"name": st, "bytes": hex(st.as_bytes())})),
                        Err(p) => ctx.panic_violation("bank name parser", &p, json!({"name": st, "bytes": hex(st.as_bytes())})),
                    }
                }
            }
        }
    });
    // ---- run numbers
    let thorough = !ctx.quick();
    let mut runs: Vec<u32> = (0..=20000u32).collect();
    runs.extend([u32::MAX, u32::MAX - 1, u32::MAX / 2, 20001, 99999, 1 << 31]);
    let mut r = ctx.rng_for("runs", 0);
    for _ in 0..ctx.tier.pick(2000, 10000) {
        runs.push(r.next() as u32);
    }
    let boundaries = [0u32, 2723, 2724, 2725, 2940, 2941, 2942, 4417, 4418, 4419, 5000, 10417, 10418, 10419, 20000, u32::MAX, u32::MAX - 1];
    let sim = check_run(&mut Ctx::new("C08", ctx.tier, 0, 0, 1, "x"), u32::MAX, false, &a16, &pwb);
    let r5000 = check_run(&mut Ctx::new("C08", ctx.tier, 0, 0, 1, "x"), 5000, false, &a16, &pwb);
    let nr = runs.len() as u64;
    ctx.cases("runs", nr, |ctx, i, _rng| {
        let run = runs[i as usize];
        let full = boundaries.contains(&run) || (thorough && run % 97 == 0);
        let Some(m) = check_run(ctx, run, full, &a16, &pwb) else { return };
        // maps may only change at documented epochs: compare with neighbours implicitly through the epoch table
        if (2941..).contains(&run) {
            // the wire map has a single epoch: every run must equal run 5000
            if Some(&m.0) != r5000.as_ref().map(|x| &x.0) {
                ctx.violation("wire map differs from the single documented epoch", format!("run {}", run), json!({"run": run}));
            }
        }
        if (4418..10418).contains(&run) && Some(&m.1) != r5000.as_ref().map(|x| &x.1) {
            ctx.violation("padwing map differs inside the 4418..10418 epoch", format!("run {}", run), json!({"run": run}));
        }
        if run == u32::MAX {
            if Some(&m) != r5000.as_ref() || sim.is_none() {
                ctx.violation("simulation run number does not map like run 5000", String::new(), json!({"run": run}));
            } else {
                ctx.count("simulation == run 5000 confirmed");
            }
        }
        ctx.count("run numbers checked");
    });
    // ---- history independence: the same (run, board, chip, channel) must map alike whatever was asked before.
    // Reference tables are computed run-major in a fresh thread; the monitored calls then go board-major and
    // zig-zag across the epoch boundaries (a cache keyed too coarsely would serve a stale answer).
    let hist_runs: Vec<u32> = vec![5000, 10418, 4417, 4418, 10417, 10418, u32::MAX, 0, 5000, 2940, 20000, 10417, u32::MAX - 1, 4418];
    ctx.cases("map-history", 71, |ctx, bi, rng| {
        let b = pwb[bi as usize];
        let runs = hist_runs.clone();
        let table: Vec<Option<(usize, usize)>> = match fresh_thread(move || {
            let a = AfterId::try_from('B').unwrap();
            let pc = PadChannelId::try_from(17).unwrap();
            runs.iter().map(|r| TpcPadPosition::try_new(*r, b, a, pc).ok().map(|p| (usize::from(p.column), usize::from(p.row)))).collect()
        }) {
            Ok(t) => t,
            Err(p) => {
                ctx.panic_violation("TpcPadPosition::try_new", &p, json!({"board": b.name()}));
                return;
            }
        };
        let a = AfterId::try_from('B').unwrap();
        let pc = PadChannelId::try_from(17).unwrap();
        // in-thread, adversarial order: each run right after each other run
        let n = hist_runs.len();
        for x in 0..n {
            for y in 0..n {
                for k in [x, y] {
                    ctx.eval();
                    let got = TpcPadPosition::try_new(hist_runs[k], b, a, pc).ok().map(|p| (usize::from(p.column), usize::from(p.row)));
                    // must also be composed of the board map and the pad map
                    let comp = TpcPwbPosition::try_new(hist_runs[k], b).ok().map(|bp| {
                        let pp = PwbPadPosition::try_new(hist_runs[k], a, pc).unwrap();
                        let tp = TpcPadPosition::new(bp, pp);
                        (usize::from(tp.column), usize::from(tp.row))
                    });
                    if got != table[k] || got != comp {
                        ctx.violation("pad position of a (run, board, chip, channel) depends on the calls made before", format!("board {} run {} asked after run {}: got {:?}, fresh thread {:?}, composition {:?}", b.name(), hist_runs[k], hist_runs[if k == x { y } else { x }], got, table[k], comp), json!({"board": b.name(), "run": hist_runs[k]}));
                        return;
                    }
                }
            }
        }
        // the same on threads that have never asked anything: each run as the very first question, and each run
        // right after exactly one other (per-thread state starts from its initial value there, not from ours)
        for x in 0..n {
            for y in 0..n {
                ctx.eval();
                let (rx, ry) = (hist_runs[x], hist_runs[y]);
                let f = move |r: u32| TpcPadPosition::try_new(r, b, a, pc).ok().map(|p| (usize::from(p.column), usize::from(p.row)));
                match fresh_thread(move || (f(rx), f(ry))) {
                    Ok((gx, gy)) if gx == table[x] && gy == table[y] => ctx.count("first / second questions of a new thread agree with the reference table"),
                    Ok((gx, gy)) => {
                        ctx.violation("pad position of a (run, board, chip, channel) depends on the calls made before", format!("board {}: a new thread asked run {} then run {}: got {:?} then {:?}, reference {:?} then {:?}", b.name(), rx, ry, gx, gy, table[x], table[y]), json!({"board": b.name(), "runs": [rx, ry]}));
                        return;
                    }
                    Err(pn) => {
                        ctx.panic_violation("TpcPadPosition::try_new", &pn, json!({"board": b.name()}));
                        return;
                    }
                }
            }
        }
        // wire lookups in between (the event builder asks wires first, then pads): pad(run x), wire(run y), pad(run y)
        let wb0 = a16[(bi % 8) as usize];
        let ch0 = Adc32ChannelId::try_from((bi % 32) as u8).unwrap();
        for x in 0..n {
            for y in 0..n {
                ctx.eval();
                let (rx, ry) = (hist_runs[x], hist_runs[y]);
                let f = move |r: u32| TpcPadPosition::try_new(r, b, a, pc).ok().map(|p| (usize::from(p.column), usize::from(p.row)));
                match fresh_thread(move || (f(rx), TpcWirePosition::try_new(ry, wb0, ch0).ok().map(usize::from), f(ry))) {
                    Ok((gx, gw, gy)) if gx == table[x] && gy == table[y] && gw.is_some() == (ry >= 2941) => ctx.count("pad, wire, pad questions of a new thread agree with the reference table"),
                    Ok((gx, gw, gy)) => {
                        ctx.violation("pad position of a (run, board, chip, channel) depends on the calls made before", format!("board {}: a new thread asked pad at run {}, a wire at run {}, pad at run {}: got {:?}, {:?}, {:?}; reference {:?}, wire map {}, {:?}", b.name(), rx, ry, ry, gx, gw, gy, table[x], if ry >= 2941 { "exists" } else { "missing" }, table[y]), json!({"board": b.name(), "runs": [rx, ry]}));
                        return;
                    }
                    Err(pn) => {
                        ctx.panic_violation("TpcPadPosition::try_new", &pn, json!({"board": b.name()}));
                        return;
                    }
                }
            }
        }
        // wires: same idea over the wire-map boundary
        let wb = a16[(bi % 8) as usize];
        let ch = Adc32ChannelId::try_from(rng.below(32) as u8).unwrap();
        for r in [5000u32, 2940, 2941, u32::MAX, 0, 2723, 2724, 5000] {
            ctx.eval();
            let got = TpcWirePosition::try_new(r, wb, ch).ok().map(usize::from);
            let fresh = fresh_thread(move || TpcWirePosition::try_new(r, wb, ch).ok().map(usize::from)).ok().flatten();
            if got != fresh {
                ctx.violation("wire position depends on the calls made before", format!("run {}", r), json!({"run": r}));
                return;
            }
        }
        ctx.count("boards checked for history independence of the maps");
    });
    // ---- crafted histories (one fresh thread each, so that per-thread state starts from scratch):
    // (a) a board asked in one map epoch, then exactly N changes of run number that do not touch it, then the same board in
    //     another epoch, N around 2^8 and 2^16 (a generation counter or a small table wraps there);
    // (b) two consecutive questions (run 1, board 1), (run 2, board 2) whose run numbers are chosen so that run and board
    //     collide under xor / sum / difference of the run number with any 4-byte window of the board's MAC address or
    //     device id, either byte order (a memo identified by such a fingerprint would confuse them).
    // Every answer is compared with the documented epochs applied to reference tables taken at runs 5000 and 10418.
    let pwb_ref_tables: Vec<Vec<Option<String>>> = [5000u32, 10418].iter().map(|r| pwb.iter().map(|b| TpcPwbPosition::try_new(*r, *b).ok().map(|p| format!("{:?}", p))).collect()).collect();
    let wire_ref_table: Vec<Vec<Option<usize>>> = a16.iter().map(|b| (0..32u8).map(|c| TpcWirePosition::try_new(5000, *b, Adc32ChannelId::try_from(c).unwrap()).ok().map(usize::from)).collect()).collect();
    let pwb_expected = |run: u32, bi: usize| -> Option<String> {
        if run == u32::MAX || (4418..10418).contains(&run) {
            pwb_ref_tables[0][bi].clone()
        } else if run >= 10418 {
            pwb_ref_tables[1][bi].clone()
        } else {
            None
        }
    };
    let wire_expected = |run: u32, bi: usize, ch: usize| -> Option<usize> { if run >= 2941 { wire_ref_table[bi][ch] } else { None } };
    ctx.cases("long-histories", 71, |ctx, bi, rng| {
        let bi = bi as usize;
        let b = pwb[bi];
        let other = pwb[(bi + 1 + rng.usize(69)) % 71];
        let filler: Vec<u32> = vec![5000, 10418, 17, 4418, u32::MAX, 10417, 0, 20000, 12000, 4417];
        for n in [255usize, 256, 257, 511, 512, 65_535, 65_536, 65_537] {
            if n > 1000 && ctx.quick() && bi % 8 != 0 {
                continue;
            }
            for (first, last) in [(5000u32, 10418u32), (10418, 5000), (10418, u32::MAX), (u32::MAX, 10418), (5000, 17)] {
                let filler = filler.clone();
                let r = fresh_thread(move || {
                    let f = |r: u32, b: padwing::BoardId| TpcPwbPosition::try_new(r, b).ok().map(|p| format!("{:?}", p));
                    let a = f(first, b);
                    // exactly n changes of run number in all (the last one lands on `last`), none of them touching b
                    let mut prev = first;
                    let mut k = 0usize;
                    let mut changes = 0usize;
                    while changes + 1 < n {
                        let r = filler[k % filler.len()];
                        k += 1;
                        if r == prev || (changes + 2 == n && r == last) {
                            continue;
                        }
                        let _ = f(r, other);
                        prev = r;
                        changes += 1;
                    }
                    let z = f(last, b);
                    (a, z)
                });
                ctx.eval();
                match r {
                    Ok((a, z)) if a == pwb_expected(first, bi) && z == pwb_expected(last, bi) => ctx.count("long histories agreeing with the reference"),
                    Ok((a, z)) => {
                        ctx.violation("pad position of a (run, board, chip, channel) depends on the calls made before", format!("board {} asked at run {}, then {} changes of run number on another board, then at run {}: got {:?} then {:?}, reference {:?} then {:?}", b.name(), first, n, last, a, z, pwb_expected(first, bi), pwb_expected(last, bi)), json!({"board": b.name(), "n": n}));
                        return;
                    }
                    Err(p) => {
                        ctx.panic_violation("TpcPwbPosition::try_new", &p, json!({}));
                        return;
                    }
                }
            }
        }
    });
    ctx.cases("crafted-collisions", 64 + 71, |ctx, i, rng| {
        let i = i as usize;
        let bases: [u32; 6] = [100, 2940, 2941, 5000, 10418, u32::MAX];
        let windows = |mac: &[u8; 6]| -> Vec<u32> {
            let mut v = Vec::new();
            for o in 0..=2 {
                let w: [u8; 4] = mac[o..o + 4].try_into().unwrap();
                v.push(u32::from_le_bytes(w));
                v.push(u32::from_be_bytes(w));
            }
            v
        };
        if i < 64 {
            // wires: every ordered pair of the 8 Alpha16 boards
            let (i1, i2) = (i / 8, i % 8);
            if i1 == i2 {
                return;
            }
            let (m1, m2) = (windows(&crate::enc::A16_MACS[i1].1), windows(&crate::enc::A16_MACS[i2].1));
            for (w1, w2) in m1.iter().zip(&m2) {
                for &r2 in &bases {
                    for r1 in [r2 ^ w1 ^ w2, r2.wrapping_add(*w2).wrapping_sub(*w1), r2.wrapping_sub(*w2).wrapping_add(*w1), r2 ^ w1, r2 ^ w2] {
                        let ch = rng.usize(32);
                        let (b1, b2) = (a16[i1], a16[i2]);
                        let c = Adc32ChannelId::try_from(ch as u8).unwrap();
                        let r = fresh_thread(move || (TpcWirePosition::try_new(r1, b1, c).ok().map(usize::from), TpcWirePosition::try_new(r2, b2, c).ok().map(usize::from)));
                        ctx.eval();
                        match r {
                            Ok((x, y)) if x == wire_expected(r1, i1, ch) && y == wire_expected(r2, i2, ch) => ctx.count("crafted (run, board) pairs agreeing with the reference"),
                            Ok((x, y)) => {
                                ctx.violation("wire position depends on the calls made before", format!("(run {}, board {}) then (run {}, board {}), channel {}: got {:?} then {:?}, reference {:?} then {:?}", r1, A16[i1], r2, A16[i2], ch, x, y, wire_expected(r1, i1, ch), wire_expected(r2, i2, ch)), json!({"runs": [r1, r2]}));
                                return;
                            }
                            Err(p) => {
                                ctx.panic_violation("TpcWirePosition::try_new", &p, json!({}));
                                return;
                            }
                        }
                    }
                }
            }
        } else {
            // PadWing boards: board k against three others
            let i1 = i - 64;
            for step in [1usize, 17, 40] {
                let i2 = (i1 + step) % 71;
                let (m1, m2) = (windows(&PWB_BOARDS[i1].1), windows(&PWB_BOARDS[i2].1));
                for (w1, w2) in m1.iter().zip(&m2) {
                    for &r2 in &bases {
                        for r1 in [r2 ^ w1 ^ w2, r2.wrapping_add(*w2).wrapping_sub(*w1), r2.wrapping_sub(*w2).wrapping_add(*w1)] {
                            let (b1, b2) = (pwb[i1], pwb[i2]);
                            let f = move |r: u32, b: padwing::BoardId| TpcPwbPosition::try_new(r, b).ok().map(|p| format!("{:?}", p));
                            let r = fresh_thread(move || (f(r1, b1), f(r2, b2)));
                            ctx.eval();
                            match r {
                                Ok((x, y)) if x == pwb_expected(r1, i1) && y == pwb_expected(r2, i2) => ctx.count("crafted (run, board) pairs agreeing with the reference"),
                                Ok((x, y)) => {
                                    ctx.violation("pad position of a (run, board, chip, channel) depends on the calls made before", format!("(run {}, board {}) then (run {}, board {}): got {:?} then {:?}, reference {:?} then {:?}", r1, PWB_BOARDS[i1].0, r2, PWB_BOARDS[i2].0, x, y, pwb_expected(r1, i1), pwb_expected(r2, i2)), json!({"runs": [r1, r2]}));
                                    return;
                                }
                                Err(p) => {
                                    ctx.panic_violation("TpcPwbPosition::try_new", &p, json!({}));
                                    return;
                                }
                            }
                        }
                    }
                }
            }
        }
    });
    // ---- the maps asked from 8 threads at once, each thread for its own run number (runs on both sides of every map
    // epoch): every answer against the reference table of its run. State shared between threads must be updated as one.
    ctx.cases("concurrent", ctx.tier.pick(8, 128), |ctx, i, rng| {
        let runs8: Vec<u32> = vec![5000, 10418, u32::MAX, 12000, 4418, 10417, 20000, 11500];
        let a = AfterId::try_from(['A', 'B', 'C', 'D'][(i % 4) as usize]).unwrap();
        let pc = PadChannelId::try_from(1 + rng.below(72) as u16).unwrap();
        let boards = pwb.clone();
        // reference, one run at a time, on this thread (composition of the two component maps)
        let reference: Vec<Vec<Option<(usize, usize)>>> = runs8.iter().map(|r| boards.iter().map(|b| TpcPwbPosition::try_new(*r, *b).ok().map(|bp| { let tp = TpcPadPosition::new(bp, PwbPadPosition::try_new(*r, a, pc).unwrap()); (usize::from(tp.column), usize::from(tp.row)) })).collect()).collect();
        let rounds = ctx.tier.pick(300, 1000);
        let bad: Vec<Option<String>> = std::thread::scope(|s| {
            let hs: Vec<_> = runs8.iter().enumerate().map(|(k, r)| {
                let (boards, reference, r) = (&boards, &reference, *r);
                s.spawn(move || {
                    for round in 0..rounds {
                        for (bi, b) in boards.iter().enumerate() {
                            let got = TpcPadPosition::try_new(r, *b, a, pc).ok().map(|p| (usize::from(p.column), usize::from(p.row)));
                            if got != reference[k][bi] {
                                return Some(format!("run {} board {} (round {}): got {:?}, reference {:?}", r, b.name(), round, got, reference[k][bi]));
                            }
                        }
                    }
                    None
                })
            }).collect();
            hs.into_iter().map(|h| h.join().unwrap_or(Some("thread panicked".into()))).collect()
        });
        ctx.eval_n(8 * rounds as u64 * boards.len() as u64);
        match bad.into_iter().flatten().next() {
            Some(b) => ctx.violation("pad position of a (run, board, chip, channel) depends on what other threads ask at the same time", b, json!({"runs": runs8})),
            None => ctx.count_n("concurrent lookups agreeing with the reference", 8 * rounds as u64 * boards.len() as u64),
        }
    });
    // names with a sign / leading zeros between the prefix and the number (integer-parsing shortcuts accept them)
    ctx.cases("numeric-names", 1, |ctx, _i, _rng| {
        for st in ["CBF01", "CBF+1", "CBF001", "CBF+01", "CBF004", "CBF 1", "CBF1 ", "CBF-1", "CBF0", "CBF5", "PC+0", "PC 0", "PC-0", "PC0", "PC000", "PC+00", "C09+", "C09-", "B09+", "C+9A", "C 9A", "C9A", "C009A", "SEQ02", "SEQ+2", "C09 A", "C0910", "C0900", "C09a", "C09g", "B09a", "PC1", "PC001"] {
            ctx.eval();
            let e = if st.len() == 4 && st.is_ascii() { spec(&[st.as_bytes()[0], st.as_bytes()[1], st.as_bytes()[2], st.as_bytes()[3]]) } else { None };
            match guard(|| (got(st), specific_ok(st, &got(st)))) {
                Ok((g, ok)) if g == e && ok => ctx.count("numeric-looking names handled per the grammar"),
                Ok((g, ok)) => ctx.violation("undocumented bank name accepted", format!("{:?}: got {:?}, grammar {:?}, specific parsers consistent: {}", st, g, e, ok), json!({"name": st})),
                Err(p) => ctx.panic_violation("bank name parser", &p, json!({"name": st})),
            }
        }
    });
    // the full pad map of the simulation must equal run 5000 pad by pad
    ctx.cases("sim5000", 71, |ctx, i, _rng| {
        let b = pwb[i as usize];
        for chip in ['A', 'B', 'C', 'D'] {
            for ch in 1..=72u16 {
                ctx.eval();
                let a = AfterId::try_from(chip).unwrap();
                let pc = PadChannelId::try_from(ch).unwrap();
                let x = TpcPadPosition::try_new(u32::MAX, b, a, pc).ok().map(|p| (usize::from(p.column), usize::from(p.row)));
                let y = TpcPadPosition::try_new(5000, b, a, pc).ok().map(|p| (usize::from(p.column), usize::from(p.row)));
                if x != y {
                    ctx.violation("simulation pad map differs from run 5000", format!("board {} chip {} ch {}", b.name(), chip, ch), json!({}));
                    return;
                }
            }
        }
    });
    // ---- geometry: wire <-> pad column association, end to end through avalanches()
    let model = crate::sim::Model::load(&repo_root());
    let cols: Vec<usize> = (0..32).collect();
    ctx.cases("geometry", 256, |ctx, w, rng| {
        let w = w as usize;
        let phi_w = TpcWirePosition::try_from(w).unwrap().phi();
        let pitch = 2.0 * PI / 32.0;
        let col_true = (phi_w / pitch).floor() as usize;
        // the public column phi must be the centre of that span
        let cphi = TpcPadColumn::try_from(col_true).unwrap().phi();
        if (cphi - (col_true as f64 + 0.5) * pitch).abs() > 1e-12 || (phi_w - cphi).abs() > pitch / 2.0 {
            ctx.violation("wire does not lie inside the pad column span given by the public phi()", format!("wire {} phi {} column {} phi {}", w, phi_w, col_true, cphi), json!({"wire": w}));
            return;
        }
        let probe: Vec<usize> = if thorough { cols.clone() } else { vec![col_true, (col_true + 1) % 32, (col_true + 31) % 32, rng.usize(32), (col_true + 16) % 32] };
        for c in probe {
            ctx.eval();
            let k = 40 + rng.usize(100);
            let mut ws = vec![0.0; 400];
            for (j, r) in model.wr.iter().enumerate() {
                if k + j < 400 {
                    ws[k + j] += 100.0 * r;
                }
            }
            let row = 2 + rng.usize(570);
            let mut pads = Vec::new();
            for (dr, wgt) in [(-1i64, 0.5), (0, 1.0), (1, 0.5)] {
                let mut ps = vec![0.0; 400];
                for (j, r) in model.pr.iter().enumerate() {
                    if k + j < 400 {
                        ps[k + j] += 600.0 * wgt * r;
                    }
                }
                pads.push((c, (row as i64 + dr) as usize, ps));
            }
            let ev = vh::main_event_from_signals(vec![(w, ws)], pads, 7);
            let av = match guard(|| ev.avalanches()) {
                Ok(a) => a,
                Err(p) => {
                    ctx.panic_violation("avalanches()", &p, json!({"wire": w, "column": c}));
                    return;
                }
            };
            let expect = c == col_true;
            if av.is_empty() == expect {
                ctx.violation("wire paired with pads of the wrong column", format!("wire {} (phi {:.4}) with a pad pulse in column {}: {} avalanche(s), geometry says {}", w, phi_w, c, av.len(), if expect { "match" } else { "no match" }), json!({"wire": w, "column": c}));
                return;
            }
            if expect {
                use uom::si::angle::radian;
                if av.iter().any(|a| (a.phi.get::<radian>() - phi_w).abs() > 1e-12) {
                    ctx.violation("avalanche phi is not the wire's phi", format!("wire {}", w), json!({"wire": w}));
                    return;
                }
                ctx.count("geometry probes with a matching avalanche");
                ctx.distinct_enum += 1;
            } else {
                ctx.count("geometry probes correctly without avalanche");
            }
        }
    });
    ctx.require("names accepted", 458);
    ctx.require("run numbers checked", 20000);
    ctx.require("geometry probes with a matching avalanche", 256);
}
