//! C14 – reconstruction stages are total on physical inputs and return finite geometry.
use crate::core::*;
use crate::geom::*;
use alpha_g_physics::reconstruction::{cluster_spacepoints, find_vertices, verif_hooks as vh, Track, TryTrackFromClusterError};
use alpha_g_physics::SpacePoint;
use serde_json::json;
use std::f64::consts::PI;
use uom::si::length::meter;

pub fn prop() -> Prop {
    Prop {
        id: "C14",
        level: "exploration",
        rule: "clusters of 13..=200 points (hook cluster_from_points) from 14 families (helices with special pitch incl. 0 / subnormal / 1e-17..1e2, exactly collinear rays / x-axis / shared z, collinear perturbed by 1e-18..1e-2, repeated point, two distinct points, equal radii, vertical line, dyadic grid, circle through the origin, random cloud, physical tracks, with duplicates) -> Track::try_from; the same families mixed into point sets of 0..=2000 points -> cluster_spacepoints -> Track::try_from on every cluster (hook-free); track sets of size 0..=8 from fitted tracks and from track_from_helix with ties (identical tracks, equal beamline z, equal radius sums) -> find_vertices. Panic monitor in both build profiles; returned helix parameters, t_inner/t_outer, t_i and vertex coordinates checked for finiteness / range. Non-trivial = distinct clusters that produced a Track + distinct track sets that produced a primary vertex. Also: 40 000 / 800 000 numerically collinear inclined rays; vertical lines perturbed by 1e-16..1e-6 m; inner clump plus one far hit; equal radii with two or three distinct points; two or three distinct radii; tracks failing the vertexing pre-filters; helices whose axis is exactly the beamline with flat pitch. Round 4: 2..4 beamline clusters tied in multiplicity whose tracks meet the beamline at exactly / within 1e-10..5e-17 m / within 1.5 cm of the same z; helices in negative-radius form (same curve) near the beamline among ordinary tracks. Round 5: curlers including their two extreme points, exactly half a turn apart. Round 6: helices of radius exactly 0 / +-0.0 / subnormal / tiny, alone in the winning cluster and mixed. Round 7: hits whose radii lie 1e-16 m apart in chains with unrelated z. Round 10: pitches between the subnormals and 1e-17 m (around sqrt / cbrt of f64::MIN_POSITIVE), such helices also placed at z = 0 where their z spread is representable. Round 8: track stubs entirely inside the inner cathode radius or entirely beyond the wires.",
        assumptions: &["hooks cluster_from_points / track_from_helix / helix_params only build the private structs from their fields and read them back"],
        profiles: both,
        shards: shards16,
        no_progress_cpu_s: Some(300),
        run,
        finalize: None,
    }
}

pub fn describe_points(p: &[SpacePoint]) -> serde_json::Value {
    json!(p.iter().map(|q| { let (r, f, z) = rpz(q); json!([r.to_bits(), f.to_bits(), z.to_bits()]) }).collect::<Vec<_>>())
}

/// Fit a cluster under the monitor and judge the result. Returns the track if one was produced.
pub fn fit(ctx: &mut Ctx, pts: &[SpacePoint], fam: &str) -> Option<Track> {
    ctx.eval();
    let v = pts.to_vec();
    let res = guard(move || Track::try_from(vh::cluster_from_points(v)));
    match res {
        Err(p) => {
            ctx.panic_violation(&format!("Track::try_from(Cluster) [{}]", fam), &p, json!({"family": fam, "points_r_phi_z_bits": describe_points(pts)}));
            None
        }
        Ok(Err(TryTrackFromClusterError::NoInitialParameters)) => {
            ctx.count(&format!("fit {}: NoInitialParameters", fam));
            None
        }
        Ok(Ok(t)) => {
            let hp = vh::helix_params(&t);
            let ok = hp.iter().all(|x| x.is_finite()) && (-PI..=PI).contains(&t.t_inner()) && (-PI..=PI).contains(&t.t_outer());
            if !ok {
                ctx.violation("track with non-finite parameters or t outside [-pi, pi]", format!("family {}: helix {:?} t_inner {} t_outer {}", fam, hp, t.t_inner(), t.t_outer()), json!({"family": fam, "points_r_phi_z_bits": describe_points(pts)}));
                return None;
            }
            // Track::at must be finite on the whole revolution
            for t_ in [-PI, t.t_inner(), 0.0, t.t_outer(), PI] {
                let c = t.at(t_);
                if !(c.x.get::<meter>().is_finite() && c.y.get::<meter>().is_finite() && c.z.get::<meter>().is_finite()) {
                    ctx.violation("Track::at returns a non-finite coordinate", format!("family {} t {}", fam, t_), json!({"helix": hp}));
                    return None;
                }
            }
            ctx.count(&format!("fit {}: Track", fam));
            let mut d = Digest::new();
            for q in pts {
                let (r, f, z) = rpz(q);
                d.f64(r);
                d.f64(f);
                d.f64(z);
            }
            ctx.nontrivial(d.0);
            Some(t)
        }
    }
}

/// Physical tracks fitted through the public route; returns (track, min-r point, max-r point).
pub fn fitted_tracks(rng: &mut Rng, n: usize) -> Vec<(Track, SpacePoint, SpacePoint)> {
    let mut out = Vec::new();
    let vz = rng.range(-0.8, 0.8);
    let mut tries = 0;
    while out.len() < n && tries < 20 {
        tries += 1;
        let pts = random_track(rng, vz);
        if pts.len() < 13 {
            continue;
        }
        // unique radii so that the library's min/max-r choice is unambiguous
        let mut rs: Vec<u64> = pts.iter().map(|p| rpz(p).0.to_bits()).collect();
        rs.sort();
        rs.dedup();
        if rs.len() != pts.len() {
            continue;
        }
        let first = *pts.iter().min_by(|a, b| a.r.partial_cmp(&b.r).unwrap()).unwrap();
        let last = *pts.iter().max_by(|a, b| a.r.partial_cmp(&b.r).unwrap()).unwrap();
        if let Ok(Ok(t)) = guard(|| Track::try_from(vh::cluster_from_points(pts.clone()))) {
            out.push((t, first, last));
        }
    }
    out
}

pub fn judge_vertices(ctx: &mut Ctx, tracks: &[Track], what: &str) {
    ctx.eval();
    let v = tracks.to_vec();
    let input = json!({"what": what, "helices": tracks.iter().map(|t| json!({"p_bits": vh::helix_params(t).iter().map(|x| x.to_bits()).collect::<Vec<_>>(), "p": vh::helix_params(t), "t_inner": t.t_inner(), "t_outer": t.t_outer()})).collect::<Vec<_>>()});
    match guard(move || find_vertices(v)) {
        Err(p) => ctx.panic_violation(&format!("find_vertices [{}]", what), &p, input),
        Ok(r) => {
            ctx.count(&format!("find_vertices returned ({} tracks in)", tracks.len()));
            if let Some(v) = &r.primary {
                let c = v.position;
                if !(c.x.get::<meter>().is_finite() && c.y.get::<meter>().is_finite() && c.z.get::<meter>().is_finite()) {
                    ctx.violation("primary vertex position is not finite", format!("{}: {:?}", what, c), input.clone());
                }
                for (_, t) in &v.tracks {
                    if !(-PI..=PI).contains(t) {
                        ctx.violation("vertex track parameter outside [-pi, pi] or NaN", format!("{}: t {}", what, t), input.clone());
                    }
                }
                ctx.count("track sets that produced a primary vertex");
                let mut d = Digest::new();
                for t in tracks {
                    for x in vh::helix_params(t) {
                        d.f64(x);
                    }
                }
                ctx.nontrivial(d.0);
            }
            super::c15::check_vertex_partition(ctx, tracks, &r, what);
        }
    }
}

pub fn synthetic_track(rng: &mut Rng, z: f64, pitch: f64) -> Track {
    // helix through (about) the beamline at height z
    let rad = rng.range(0.3, 3.3);
    let phi_c = rng.range(-PI, PI);
    // one track in four fails a vertexing pre-filter: it misses the beamline by 6..25 cm, or is only 0..3.4 cm long
    let variant = rng.below(8);
    let miss = if variant == 0 { rng.range(0.06, 0.25) * if rng.bool() { 1.0 } else { -1.0 } } else { rng.range(-0.02, 0.02) };
    let p = [(rad + miss) * phi_c.cos(), (rad + miss) * phi_c.sin() + rng.range(-0.02, 0.02), z, rad, phi_c + PI, pitch];
    let s = if rng.bool() { 1.0 } else { -1.0 };
    let t_in = s * 0.11 / rad;
    let t_out = if variant == 1 { t_in + s * rng.range(0.0, 0.034) / rad } else { s * 0.19 / rad };
    vh::track_from_helix(p, t_in, t_out)
}

fn run(ctx: &mut Ctx) {
    // ---- clusters through the hook
    let n = ctx.tier.pick(1600, 60_000);
    ctx.cases("clusters", n, |ctx, i, rng| {
        let fam = (i % FAMILIES.len() as u64) as usize;
        let np = 13 + rng.usize(if i % 7 == 0 { 188 } else { 40 });
        let pts = family(rng, fam, np);
        if pts.len() < 3 {
            return;
        }
        if i < 2 {
            ctx.sample(json!({"kind": "cluster", "family": FAMILIES[fam], "n_points": pts.len(), "first_points_r_phi_z": pts.iter().take(3).map(|p| { let (r, f, z) = rpz(p); json!([r, f, z]) }).collect::<Vec<_>>()}));
        }
        fit(ctx, &pts, FAMILIES[fam]);
    });
    // ---- inclined, (numerically) collinear clusters: the exact-collinearity test lets some of them through
    // with a circle of astronomically large radius; the pitch guess then divides by an angle that may be exactly 0
    let n = ctx.tier.pick(40_000, 800_000);
    ctx.cases("inclined-rays", n, |ctx, i, rng| {
        let phi = rng.range(-PI, PI);
        let slope = if i % 3 == 0 { 1.0 } else { rng.range(-3.0, 3.0) };
        let z0 = rng.range(-0.3, 0.3);
        let r1 = rng.range(0.05, 0.12);
        let r3 = rng.range(0.18, 0.25);
        // middle point: anywhere, or very close to the inner one
        let r2 = if rng.bool() { r1 + rng.range(0.0, 0.02) } else { rng.range(r1, r3) };
        let mk = |r: f64| sp(r, phi, (z0 + slope * r).clamp(-1.3, 1.3));
        let mut pts = vec![mk(r1), mk(r2), mk(r3)];
        // fill up to 13 points on the same ray between the extremes (they do not change the three template points
        // unless one of them is closer to the mean radius than r2 - both situations are wanted)
        while pts.len() < 13 {
            let r = if i % 2 == 0 { *rng.pick(&[r1, r2, r3]) } else { rng.range(r1, r3) };
            pts.push(mk(r));
        }
        fit(ctx, &pts, "inclined ray (same phi, z = a r + b)");
    });
    // ---- hook-free: point sets through cluster_spacepoints, then every cluster fitted
    let n = ctx.tier.pick(160, 6000);
    ctx.cases("clouds", n, |ctx, i, rng| {
        let m = if i % 10 == 0 { 1200 + rng.usize(801) } else { rng.usize(400) };
        let pts = super::c15::point_set(rng, m);
        ctx.eval();
        let v = pts.clone();
        match guard(move || cluster_spacepoints(v)) {
            Err(p) => ctx.panic_violation("cluster_spacepoints", &p, json!({"points_r_phi_z_bits": describe_points(&pts)})),
            Ok(res) => {
                ctx.count("cluster_spacepoints returned");
                ctx.count_n("clusters found in point sets", res.clusters.len() as u64);
                super::c15::check_clustering(ctx, &pts, &res);
                for c in res.clusters {
                    let cp: Vec<SpacePoint> = c.iter().copied().collect();
                    fit(ctx, &cp, "cluster from cluster_spacepoints");
                }
            }
        }
    });
    // ---- track sets
    let n = ctx.tier.pick(400, 20_000);
    ctx.cases("tracksets", n, |ctx, i, rng| {
        let k = rng.usize(9);
        let mut ts: Vec<Track> = Vec::new();
        let pool = if i % 2 == 0 { fitted_tracks(rng, 3) } else { Vec::new() };
        let z = rng.range(-1.0, 1.0);
        let tie_mode = rng.below(7);
        for j in 0..k {
            if !pool.is_empty() && rng.bool() {
                ts.push(pool[rng.usize(pool.len())].0);
                continue;
            }
            let pitch = if rng.bool() { *rng.pick(&PITCHES) } else { rng.range(-2.0, 2.0) };
            let t = match tie_mode {
                0 if j > 0 => ts[0],                                   // identical tracks
                1 => synthetic_track(rng, z, pitch),                   // same beamline z (up to the centre jitter)
                2 => {
                    // exactly equal beamline z and equal radius: only the direction differs
                    let rad = 1.0;
                    let a = rng.range(-PI, PI);
                    vh::track_from_helix([rad * a.cos(), rad * a.sin(), z, rad, a + PI, 0.0], 0.11, 0.19)
                }
                3 => synthetic_track(rng, z + 0.034 * j as f64, pitch), // chained at the clustering distance
                4 => {
                    // axis exactly on the beamline (x0 = y0 = 0), small radius, flat / tiny pitch: the vertex fit starts
                    // exactly on the axis of these helices
                    let rad = rng.range(0.01, 0.05);
                    let h = *rng.pick(&[0.0, 5e-324, -5e-324, 1e-310, 1e-17, 1e-3, 0.2]);
                    vh::track_from_helix([0.0, 0.0, z + 0.001 * j as f64, rad, rng.range(-PI, PI), h], -1.6, 1.6)
                }
                _ => {
                    let zz = rng.range(-1.0, 1.0);
                    synthetic_track(rng, zz, pitch)
                }
            };
            ts.push(t);
        }
        judge_vertices(ctx, &ts, ["identical tracks", "same beamline z", "equal z and radius", "chained z", "axis on the beamline", "random", "random"][tie_mode as usize]);
    });
    // ---- several beamline clusters that tie for the largest multiplicity, each made of tracks that meet the beamline at
    // exactly / almost exactly / roughly the same z (any tie-break computed from the z values then works on differences
    // that cancel to 0 or +-1 ulp); some helices given in their negative-radius form (the same curve: r -> -r, phi0 -> phi0 + pi)
    let n = ctx.tier.pick(1500, 60_000);
    ctx.cases("tied-clusters", n, |ctx, i, rng| {
        let nclusters = 2 + rng.usize(3);
        let mult = 2 + rng.usize(3);
        let zs = [0.1, 0.3, 0.7, -0.1, 0.25, 1.0, 1e-3, 0.123456789, -0.7, 0.2, 0.6, -0.3];
        let spread_kind = i % 4;
        let mut ts: Vec<Track> = Vec::new();
        let z_first = if i % 3 == 0 { zs[rng.usize(zs.len())] } else { rng.range(-1.0, 1.0) };
        for c in 0..nclusters {
            let zc = z_first + 0.3 * c as f64 * if z_first > 0.0 { -1.0 } else { 1.0 };
            for j in 0..mult {
                let dz = match (spread_kind + c as u64) % 4 {
                    0 => 0.0,
                    1 => j as f64 * *rng.pick(&[1e-10, 1e-12, 1e-15, 5e-17]),
                    2 => rng.range(-0.015, 0.015),
                    _ => j as f64 * 0.009,
                };
                let rad = rng.range(0.3, 3.0);
                let a = rng.range(-PI, PI);
                let miss = rng.range(-0.02, 0.02);
                let pitch = if rng.chance(0.6) { 0.0 } else { rng.range(-0.5, 0.5) };
                let mut p = [(rad + miss) * a.cos(), (rad + miss) * a.sin(), zc + dz, rad, a + PI, pitch];
                if rng.chance(0.15) {
                    p[3] = -p[3];
                    p[4] -= PI;
                }
                let s = if rng.bool() { 1.0 } else { -1.0 };
                ts.push(vh::track_from_helix(p, s * 0.11 / rad, s * 0.19 / rad));
            }
        }
        if rng.bool() {
            rng.shuffle(&mut ts);
        }
        judge_vertices(ctx, &ts, "clusters tied in multiplicity");
        ctx.count("track sets with clusters tied in multiplicity");
    });
    // ---- helices in their negative-radius form near the beamline, among ordinary tracks at the same z
    let n = ctx.tier.pick(600, 30_000);
    ctx.cases("negative-radius", n, |ctx, i, rng| {
        let z = rng.range(-1.0, 1.0);
        let mut ts: Vec<Track> = Vec::new();
        for _ in 0..1 + rng.usize(3) {
            let (zz, pitch) = (z + rng.range(-0.01, 0.01), *rng.pick(&PITCHES));
            ts.push(synthetic_track(rng, zz, pitch));
        }
        for _ in 0..1 + rng.usize(2) {
            // small or large |r|, axis such that the curve passes within a few cm of the beamline
            let rad = if i % 2 == 0 { rng.range(1e-4, 0.05) } else { rng.range(0.05, 3.0) };
            let a = rng.range(-PI, PI);
            let d = rad + rng.range(-0.05, 0.05);
            let p = [d * a.cos(), d * a.sin(), z + rng.range(-0.02, 0.02), -rad, a, rng.range(-0.3, 0.3)];
            let (t0, t1) = if rad < 0.06 { (rng.range(-3.0, 0.0), rng.range(0.0, 3.0)) } else { (0.11 / rad, 0.19 / rad) };
            ts.push(vh::track_from_helix(p, t0, t1));
        }
        rng.shuffle(&mut ts);
        judge_vertices(ctx, &ts, "negative-radius helices among ordinary tracks");
        ctx.count("track sets with negative-radius helices");
    });
    // ---- helices of radius exactly 0 (straight lines parallel to the beamline), +-0.0, subnormal and tiny radii, alone
    // (every track of the winning cluster degenerate) and mixed with ordinary tracks
    let n = ctx.tier.pick(600, 30_000);
    ctx.cases("zero-radius", n, |ctx, i, rng| {
        let z = rng.range(-1.0, 1.0);
        let mut ts: Vec<Track> = Vec::new();
        for _ in 0..2 + rng.usize(3) {
            let rad = *rng.pick(&[0.0, -0.0, 5e-324, -5e-324, 1e-300, 1e-17, 1e-9]);
            let d = rng.range(0.0, 0.05);
            let a = rng.range(-PI, PI);
            let h = *rng.pick(&[1.5, -1.5, 0.3, 3.0]);
            let t0 = rng.range(-0.6, -0.2);
            ts.push(vh::track_from_helix([d * a.cos(), d * a.sin(), z + rng.range(-0.015, 0.015), rad, rng.range(-PI, PI), h], t0, t0 + rng.range(0.5, 1.2)));
        }
        if i % 3 == 0 {
            let (zz, pitch) = (z + rng.range(-0.01, 0.01), *rng.pick(&PITCHES));
            ts.push(synthetic_track(rng, zz, pitch));
        }
        if i % 5 == 0 {
            // a second, ordinary cluster elsewhere
            for _ in 0..2 {
                let (zz, pitch) = (z + 0.4 + rng.range(-0.01, 0.01), rng.range(-1.0, 1.0));
                ts.push(synthetic_track(rng, zz, pitch));
            }
        }
        rng.shuffle(&mut ts);
        judge_vertices(ctx, &ts, "zero-radius helices");
        ctx.count("track sets with zero-radius helices");
    });
    ctx.require("cluster_spacepoints returned", 10);
    ctx.require("track sets that produced a primary vertex", 10);
}
