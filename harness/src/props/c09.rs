//! C09 – every main event yields a result: assembling and reconstructing never crashes.
use crate::core::*;
use crate::enc::{Adc, Pwb, Trg};
use crate::event;
use crate::sim;
use alpha_g_physics::MainEvent;
use serde_json::json;
use std::collections::BTreeMap;

pub fn prop() -> Prop {
    Prop {
        id: "C09",
        level: "exploration",
        rule: "(i) random bank lists: valid / invalid / near-valid names x random, truncated or valid payloads; (ii) forward-model events; (iii) forward-model events re-encoded with valid CRCs / baselines after setting samples to {i16::MIN, MIN+1, -32768+baseline+-1, MAX, PWB_MIN/MAX}, all samples extreme, pad requested_samples {0,1,2,99,100,101,511}, wire lengths {64,65,100,101,129,130}, all 79 channels of a chip, all 256 wires with noise, 4 full pad columns of noise, waveforms empty after the delay, suppressed 16-byte packets, ADC requested_samples {0,1}; (iv) duplicated / missing / foreign (BV, TRB3, MCVX, chronobox) banks; run numbers simulation, u32::MAX-1 and real-data ranges. try_from_banks, timestamp, avalanches and vertex run under the panic monitor in a release and an overflow-checked build, in child shards with a CPU-time progress watchdog. Non-trivial = distinct events (hash of banks) that built (Ok) and therefore reached avalanches() / vertex(). Also: every byte of the TRG bank, header bytes of a wire bank and payload bytes of a PWB packet (valid CRCs) changed inside an otherwise valid event; PWB packets chunked with a longer final chunk; bursts (all 8 wires of a pad column in 1-3 time bins, >= 13 avalanches at <= 3 radii). Round 4: bank names of 2..=6 bytes in every arrangement of 1-, 2-, 3- and 4-byte characters; the real alpha-g-vertices binary over runs whose main events are bad in every pattern (first, last, all, alternating, leading half, ...): exactly one row per main-event serial number, in file order, trg_time present iff the event builds. Round 5: avalanches at pad rows 0, 1, 574, 575 of every column with the coincident wire pulse. Round 6: wire waveforms of 700..65 533 samples; a PWB packet whose MAC names another known board than its chunks, with and without another bank of that board. Round 7: every waveform length 64..=153 for a block of adjacent wires and for the pads in front of them; one wire firing in 20..45 consecutive bins (a single centimetre-long track). Round 8: 1..=12 pad clusters against 1..=8 wire hits in one pad column and time bin. Round 9: wire packets asking for 0..=67 samples while carrying 0..=65.",
        assumptions: &["harness encoders produce CRC-valid packets (counted: events that built)"],
        profiles: both,
        shards: shards16,
        no_progress_cpu_s: Some(600),
        run,
        finalize: None,
    }
}

pub type Banks = Vec<(String, Vec<u8>)>;

pub fn exercise(ctx: &mut Ctx, run: u32, banks: &Banks, what: &str) {
    ctx.eval();
    let r = guard(|| match MainEvent::try_from_banks(run, banks.iter().map(|(n, d)| (&n[..], &d[..]))) {
        Ok(e) => {
            let _ = e.timestamp();
            let a = e.avalanches();
            let v = e.vertex();
            let _ = format!("{:?}", v);
            Ok((a.len(), v.is_some()))
        }
        Err(e) => Err(format!("{} / {:?}", e, e).len()),
    });
    match r {
        Err(p) => {
            let dump = json!({"run": run, "what": what, "banks": banks.iter().map(|(n, d)| json!([n, hex(d)])).collect::<Vec<_>>()});
            ctx.panic_violation(&format!("MainEvent ({})", what), &p, dump);
        }
        Ok(Ok((na, v))) => {
            ctx.count(&format!("{}: built", what));
            if na > 0 {
                ctx.count("events with avalanches");
            }
            if v {
                ctx.count("events with a vertex");
            }
            let mut d = Digest::new();
            d.u64(run as u64);
            for (n, b) in banks {
                d.bytes(n.as_bytes());
                d.bytes(b);
            }
            ctx.nontrivial(d.0);
        }
        Ok(Err(_)) => ctx.count(&format!("{}: typed error", what)),
    }
}

const EXT: [i16; 12] = [i16::MIN, i16::MIN + 1, i16::MAX, i16::MAX - 1, -32767, 0, 3000, 1725, -1, 2047, -2048, -31043];

fn run(ctx: &mut Ctx) {
    let m = sim::Model::load(&repo_root());
    let inv = crate::maps::inverse(u32::MAX);
    let inv_real = crate::maps::inverse(11500);
    // ---- (i) random bank lists
    let n = ctx.tier.pick(3000, 200_000);
    ctx.cases("random-banks", n, |ctx, i, rng| {
        let names = ["ATAT", "TRBA", "MCVX", "C09A", "C18V", "B09F", "PC00", "PC91", "XXXX", "C09W", "CBF1", "SEQ2", "", "C09", "PC0", "ÀTAT", "c09a"];
        let mut banks: Banks = Vec::new();
        let consistent = rng.chance(0.6);
        for _ in 0..rng.usize(8) {
            let mut name = if rng.chance(0.8) { names[rng.usize(names.len())].to_string() } else { String::from_utf8_lossy(&rng.bytes(4)).to_string() };
            let data = match rng.below(6) {
                0 => rng.bytes(rng.clone().usize(200)),
                1 => {
                    if consistent {
                        name = "ATAT".into();
                    }
                    Trg::simple(rng.next() as u32, rng.next() as u32 >> 4).encode()
                }
                2 => {
                    let (b, ch) = (rng.usize(8), rng.below(32) as u8);
                    if consistent {
                        name = format!("C{}{}", crate::enc::A16_MACS[b].0, std::char::from_digit(ch as u32, 32).unwrap().to_ascii_uppercase());
                    }
                    Adc::simple(crate::enc::A16_MACS[b].1, ch, (0..64 + rng.usize(200)).map(|_| rng.next() as i16).collect()).encode()
                }
                3 => {
                    let b = crate::refs::PWB_BOARDS[rng.usize(71)];
                    if consistent {
                        name = format!("PC{}", b.0);
                    }
                    let rs = rng.usize(200) as u16;
                    let p = Pwb::new(['A', 'B', 'C', 'D'][rng.usize(4)], b.1, rs, vec![(4 + rng.below(10) as u16, (0..rs).map(|_| rng.next() as i16).collect())]);
                    p.chunks(crate::refs::pwb_device_id(&b.1), rng.below(4) as u8, 1400)[0].encode()
                }
                4 => Vec::new(),
                _ => {
                    let mut d = Trg::simple(1, 2).encode();
                    d.truncate(rng.usize(81));
                    d
                }
            };
            if consistent && !(name == "ATAT" || name.starts_with('C') || name.starts_with("PC")) {
                name = rng.pick(&["TRBA", "MCVX", "B09A"]).to_string();
            }
            banks.push((name, data));
        }
        if consistent && rng.chance(0.7) && !banks.iter().any(|b| b.0 == "ATAT") {
            banks.push(("ATAT".into(), Trg::simple(rng.next() as u32, 5).encode()));
        }
        exercise(ctx, if i % 2 == 0 { u32::MAX } else { rng.next() as u32 }, &banks, "random bank list");
    });
    // ---- bank names of every shape: 2..=6 bytes built from ASCII name characters and 2-, 3- and 4-byte characters
    // in every arrangement (a parser that slices the name at a fixed byte offset must screen these first)
    let shapes = super::c01::four_byte_utf8_strings();
    ctx.cases("name-shapes", 16, |ctx, part, rng| {
        for (k, name) in shapes.iter().enumerate() {
            if k as u64 % 16 != part {
                continue;
            }
            let trg = Trg::simple(rng.next() as u32, 5).encode();
            exercise(ctx, u32::MAX, &vec![(name.clone(), trg.clone())], "bank name with multi-byte characters");
            exercise(ctx, 11500, &vec![("ATAT".to_string(), trg.clone()), (name.clone(), rng.bytes(rng.clone().usize(40)))], "bank name with multi-byte characters");
            ctx.count("bank names with multi-byte characters");
        }
    });
    // ---- "the vertex program can always emit a row for every event serial number": the program itself over runs whose
    // main events are good / bad in every pattern (first, last, all, alternating, leading k), serial numbers in file order
    let exe = super::c20::bin("alpha-g-vertices");
    if ctx.profile == "release" && !exe.exists() {
        ctx.inconclusive("analysis binaries not built".into());
    }
    if ctx.profile == "release" && exe.exists() {
        let npat = 10u64;
        ctx.cases("vertices-rows", ctx.tier.pick(20, 200), |ctx, i, rng| {
            let dir = super::c20::workdir(ctx, i);
            let ne = [1usize, 2, 3, 5, 8, 13][(i / npat) as usize % 6];
            let mut serial = rng.below(100) as u32;
            let mut events = Vec::new();
            let mut want: Vec<(u32, bool)> = Vec::new();
            let mut ts = rng.next() as u32;
            for e in 0..ne {
                let bad = match i % npat {
                    0 => e == 0,
                    1 => e + 1 == ne,
                    2 => true,
                    3 => e % 2 == 0,
                    4 => e % 2 == 1,
                    5 => e < ne / 2 + 1,
                    6 => e >= ne / 2,
                    7 => false,
                    8 => e != ne / 2,
                    _ => rng.chance(0.4),
                };
                // other event ids in between do not get a row
                if rng.chance(0.3) {
                    events.push(crate::midas::Event { id: *rng.pick(&[3u16, 4, 8]), serial: rng.below(50) as u32, timestamp: 1_600_000_000, banks: vec![("SEQ2".into(), rng.bytes(12))] });
                }
                serial += 1 + rng.below(3) as u32;
                ts = ts.wrapping_add(rng.below(1 << 27) as u32);
                let mut banks: Banks = vec![("ATAT".into(), Trg::simple(ts, serial).encode())];
                if bad {
                    match rng.below(7) {
                        0 => banks.clear(),
                        1 => banks[0].1.truncate(76),
                        2 => banks.push(("XXXX".into(), vec![1, 2, 3])),
                        3 => banks.push(("ATAT".into(), Trg::simple(ts, 1).encode())),
                        4 => banks.push(("C09A".into(), rng.bytes(20))),
                        5 => banks[0].1[79] = 0,
                        _ => banks.push(("PC00".into(), rng.bytes(40))),
                    }
                }
                let ok = matches!(guard(|| MainEvent::try_from_banks(u32::MAX, banks.iter().map(|(n, d)| (&n[..], &d[..]))).is_ok()), Ok(true));
                want.push((serial, ok));
                events.push(crate::midas::Event { id: 1, serial, timestamp: 1_600_000_000, banks });
            }
            let path = dir.join("run.mid");
            crate::midas::write(&path, &crate::midas::file_bytes(u32::MAX, 1_600_000_000, 1_600_000_009, &events));
            let stem = dir.join("out");
            ctx.eval();
            let o = std::process::Command::new(&exe).arg(&path).arg("-o").arg(&stem).env("RAYON_NUM_THREADS", ["1", "3", "16"][(i % 3) as usize]).output();
            let Ok(o) = o else {
                ctx.inconclusive("cannot spawn alpha-g-vertices".into());
                return;
            };
            let dump = json!({"pattern": i % npat, "events": want.iter().map(|(s, ok)| json!([s, ok])).collect::<Vec<_>>()});
            if !o.status.success() {
                ctx.violation("alpha-g-vertices failed on a run with undecodable events", String::from_utf8_lossy(&o.stderr).lines().last().unwrap_or("").to_string(), dump);
                return;
            }
            let text = std::fs::read_to_string(stem.with_extension("csv")).unwrap_or_default();
            let rows: Vec<Vec<String>> = text.lines().filter(|l| !l.starts_with('#')).skip(1).map(|l| l.split(',').map(str::to_owned).collect()).collect();
            let got: Vec<(Option<u32>, bool)> = rows.iter().map(|r| (r[0].parse().ok(), r.len() > 1 && !r[1].is_empty())).collect();
            let wanted: Vec<(Option<u32>, bool)> = want.iter().map(|(s, ok)| (Some(*s), *ok)).collect();
            if got != wanted {
                ctx.violation("alpha-g-vertices: not exactly one row per main event serial number", format!("rows (serial, has trg_time) {:?}; main events (serial, builds) {:?}", got, wanted), dump);
            } else {
                ctx.count("runs for which alpha-g-vertices wrote one row per main event");
                ctx.count_n("rows for events that do not build", want.iter().filter(|w| !w.1).count() as u64);
                let mut d = Digest::new();
                d.bytes(text.as_bytes());
                ctx.nontrivial(d.0);
            }
            let _ = std::fs::remove_dir_all(&dir);
        });
        ctx.require("runs for which alpha-g-vertices wrote one row per main event", 10);
    }
    // ---- a clean avalanche at every edge of the detector: pad rows 0, 1, 574, 575 (and a few inside) x every pad column,
    // with the coincident pulse on a wire of that column, so that matching looks at the neighbours of the edge rows
    ctx.cases("edge-rows", 32, |ctx, col, rng| {
        let col = col as usize;
        for row in [0usize, 1, 2, 287, 288, 573, 574, 575] {
            for width in [1usize, 2, 3] {
                let w = (col * 8 + rng.usize(8) + 256 - 4) % 256; // a wire in front of this pad column
                let w = if crate::evgen::wire_to_column(w) == col { w } else { (0..256).find(|x| crate::evgen::wire_to_column(*x) == col).unwrap() };
                let k = 120 + rng.usize(100);
                let mut ws = vec![3000i16; 400];
                for (j, r) in m.wr.iter().enumerate() {
                    if k + j < 400 {
                        ws[k + j] = (3000.0 + 150.0 * r).round() as i16;
                    }
                }
                let mut pm = BTreeMap::new();
                for d in 0..width {
                    let rr = if row >= 573 { row.saturating_sub(d) } else { row + d };
                    let wgt = [1.0, 0.6, 0.3][d];
                    let mut ps = vec![1725i16; 400];
                    for (j, r) in m.pr.iter().enumerate() {
                        if k + j < 400 {
                            ps[k + j] = (1725.0 + 700.0 * wgt * r).round() as i16;
                        }
                    }
                    pm.insert((col, rr), ps);
                }
                let mut banks = vec![event::wire_bank(&inv, w, ws)];
                banks.extend(event::pad_banks(&inv, &pm, 1400));
                banks.push(event::trg_bank(9));
                exercise(ctx, u32::MAX, &banks, "avalanche at an edge pad row");
            }
        }
    });
    ctx.require("avalanche at an edge pad row: built", 100);
    // ---- wire waveforms far longer than any real setting (the ADC format allows up to 65 533 samples), alone and next to
    // ordinary ones; a PWB packet whose MAC names another known board than its chunks and bank
    ctx.cases("long-wires", ctx.tier.pick(14, 56), |ctx, i, rng| {
        let len = [700usize, 1023, 1024, 1025, 1124, 1125, 1126, 2000, 2148, 4000, 4196, 16_000, 32_768, 65_533][(i % 14) as usize];
        let w0 = rng.usize(256);
        let mut banks: Banks = Vec::new();
        for k in 0..1 + rng.usize(3) {
            let l = if k == 0 { len } else { 200 + rng.usize(400) };
            let mut ws: Vec<i16> = (0..l).map(|_| 3000 + (rng.gauss() * 3.0) as i16).collect();
            let at = (l * 3 / 4).min(l.saturating_sub(30));
            for (j, r) in m.wr.iter().enumerate() {
                if at + j < l {
                    ws[at + j] = (3000.0 + 200.0 * r).round() as i16;
                }
            }
            banks.push(event::wire_bank(&inv, (w0 + k) % 256, ws));
        }
        banks.push(event::trg_bank(3));
        exercise(ctx, u32::MAX, &banks, "wire waveform of up to 65 533 samples");
    });
    // ---- every waveform length from the ADC minimum (64) to well past the delay, for a block of adjacent wires and for
    // the pads in front of them (a few samples after the delay: shorter than an offset + look-ahead window)
    ctx.cases("length-sweep", 90, |ctx, k, rng| {
        let l = 64 + k as usize;
        let col = rng.usize(32);
        let w0 = (0..256).find(|x| crate::evgen::wire_to_column(*x) == col).unwrap();
        for variant in 0..3 {
            let mut banks: Banks = Vec::new();
            for d in 0..3 {
                let wl = if variant == 2 && d == 1 { 300 } else { l };
                banks.push(event::wire_bank(&inv, (w0 + d) % 256, (0..wl).map(|j| 3000 - if j > 100 { 40 + (j % 7) as i16 } else { 0 } + (rng.gauss() * 2.0) as i16).collect()));
            }
            let prs = if variant == 1 { l.min(511) } else { (l + 4).min(511) };
            let mut pm = BTreeMap::new();
            for r in 0..3 {
                pm.insert((col, 200 + r), (0..prs).map(|j| 1725 - if j > 100 { 60 + (j % 5) as i16 } else { 0 } + (rng.gauss() * 2.0) as i16).collect::<Vec<i16>>());
            }
            banks.extend(event::pad_banks(&inv, &pm, 1400));
            banks.push(event::trg_bank(l as u32));
            exercise(ctx, u32::MAX, &banks, "waveforms a few samples longer than the delay");
        }
    });
    // ---- one wire firing in 30 consecutive time bins over the same three pad rows: ~20 avalanches at nearly one place,
    // one cluster, one fitted track about a centimetre long (no candidate for the primary vertex)
    ctx.cases("stub-track", 32, |ctx, col, rng| {
        let col = col as usize;
        let w = (0..256).find(|x| crate::evgen::wire_to_column(*x) == col).unwrap() + rng.usize(8);
        let row = 3 + rng.usize(570);
        let k0 = 120 + rng.usize(60);
        let span = 20 + rng.usize(25);
        let mut ws = vec![3000.0f64; 500];
        let mut ps = vec![vec![1725.0f64; 500]; 3];
        for k in k0..k0 + span {
            for (j, r) in m.wr.iter().enumerate() {
                if k + j < 500 {
                    ws[k + j] += 150.0 * r;
                }
            }
            for (q, wgt) in [0.5, 1.0, 0.5].iter().enumerate() {
                for (j, r) in m.pr.iter().enumerate() {
                    if k + j < 500 {
                        ps[q][k + j] += 700.0 * wgt * r;
                    }
                }
            }
        }
        let cl = |v: &Vec<f64>| -> Vec<i16> { v.iter().map(|x| x.round().clamp(-32768.0, 32767.0) as i16).collect() };
        let mut pm = BTreeMap::new();
        for q in 0..3 {
            pm.insert((col, row - 1 + q), cl(&ps[q]));
        }
        let mut banks = vec![event::wire_bank(&inv, w % 256, cl(&ws))];
        banks.extend(event::pad_banks(&inv, &pm, 1400));
        banks.push(event::trg_bank(9));
        exercise(ctx, u32::MAX, &banks, "one short track only");
    });
    // ---- one pad column, one time bin: 1..=12 separate pad clusters against 1..=8 wire hits (more pads than wires, fewer,
    // equal, exactly eight)
    ctx.cases("hits-per-bin", 12 * 4, |ctx, i, rng| {
        let nclusters = 1 + (i % 12) as usize;
        let nwires = [1usize, 2, 5, 8][(i / 12) as usize];
        let col = rng.usize(32);
        let w0 = (0..256).find(|x| crate::evgen::wire_to_column(*x) == col).unwrap();
        let k = 130 + rng.usize(60);
        let mut banks: Banks = Vec::new();
        for d in 0..nwires {
            let mut ws = vec![3000i16; 400];
            let a = 120.0 + 40.0 * d as f64;
            for (j, r) in m.wr.iter().enumerate() {
                if k + j < 400 {
                    ws[k + j] = (3000.0 + a * r).round() as i16;
                }
            }
            banks.push(event::wire_bank(&inv, (w0 + d) % 256, ws));
        }
        let mut pm = BTreeMap::new();
        let row0 = 20 + rng.usize(400);
        for c in 0..nclusters {
            let amp = 500.0 + 90.0 * c as f64;
            for (q, wgt) in [0.5, 1.0, 0.45].iter().enumerate() {
                let mut ps = vec![1725i16; 400];
                for (j, r) in m.pr.iter().enumerate() {
                    if k + j < 400 {
                        ps[k + j] = (1725.0 + amp * wgt * r).round() as i16;
                    }
                }
                pm.insert((col, row0 + 4 * c + q), ps);
            }
        }
        banks.extend(event::pad_banks(&inv, &pm, 1400));
        banks.push(event::trg_bank(9));
        exercise(ctx, u32::MAX, &banks, "several pad clusters and wire hits in one time bin");
    });
    // ---- wire packets whose header asks for 0..=67 samples while carrying 0..=66 of them (and the other way round)
    ctx.cases("short-wires", 8, |ctx, i, rng| {
        for rs in [0u16, 1, 2, 3, 4, 63, 64, 65, 66, 67] {
            for wl in [0usize, 1, 2, 10, 61, 62, 63, 64, 65] {
                let w = rng.usize(256);
                let (name, mac, ch) = &inv.wire[w];
                let mut a = Adc::simple(*mac, *ch, (0..wl).map(|_| 3000 + (rng.gauss() * 3.0) as i16).collect());
                a.requested_samples = rs;
                if i % 2 == 1 {
                    a.suppression = true;
                    a.keep_bit = true;
                    a.keep_last = 34;
                }
                let nm = format!("C{}{}", name, std::char::from_digit(*ch as u32, 32).unwrap().to_ascii_uppercase());
                exercise(ctx, u32::MAX, &vec![(nm, a.encode()), event::trg_bank(5)], "wire packet with a tiny requested_samples / waveform");
            }
        }
    });
    ctx.cases("foreign-packet", 32, |ctx, col, rng| {
        let mut pm = BTreeMap::new();
        pm.insert((col as usize, rng.usize(576)), (0..300).map(|_| 1725 + (rng.gauss() * 3.0) as i16).collect::<Vec<i16>>());
        let mut banks = event::pad_banks(&inv, &pm, 1400);
        // rebuild the message with the MAC of another board, chunk headers and bank name unchanged
        let c = super::must_chunk(&banks[0].1);
        let all: Vec<u8> = banks.iter().map(|b| super::must_chunk(&b.1)).flat_map(|c| c.payload().to_vec()).collect();
        if let Some(mut p) = crate::refs::pwb_ref(&all) {
            let other = crate::refs::PWB_BOARDS[(col as usize * 7 + 3) % 71];
            if other.1 != p.mac {
                p.mac = other.1;
                let name = banks[0].0.clone();
                banks = p.chunks(c.board_id().device_id(), banks[0].1[10], 1400).iter().map(|c| (name.clone(), c.encode())).collect();
            }
        }
        banks.push(event::trg_bank(9));
        for with_other_bank in [false, true] {
            let mut b = banks.clone();
            if with_other_bank {
                let mut pm2 = BTreeMap::new();
                pm2.insert(((col as usize + 5) % 32, rng.usize(576)), vec![1725i16; 200]);
                b.extend(event::pad_banks(&inv, &pm2, 1400));
            }
            exercise(ctx, u32::MAX, &b, "PWB packet whose MAC names another board than its chunks");
        }
    });
    // ---- (ii)+(iii) forward-model events, plain and with extreme values
    let n = ctx.tier.pick(320, 12_000);
    ctx.cases("sim-extreme", n, |ctx, i, rng| {
        let ev = sim::random_event(rng);
        let sg = sim::signals(&m, &ev);
        let mode = i % 16;
        let mut wires: BTreeMap<usize, Vec<i16>> = sg.wires.iter().map(|(w, s)| (*w, sim::digitise(s, 3000.0, -32768, 32767))).collect();
        let mut pads: BTreeMap<(usize, usize), Vec<i16>> = sg.pads.iter().map(|(k, s)| (*k, sim::digitise(s, 1725.0, -32768, 32767))).collect();
        let mut run = u32::MAX;
        let mut extra: Banks = Vec::new();
        let what = match mode {
            0 => "simulated event",
            1 => {
                for s in wires.values_mut() {
                    for _ in 0..1 + rng.usize(20) {
                        let k = rng.usize(s.len());
                        s[k] = *rng.pick(&EXT);
                    }
                }
                "wire samples at extremes"
            }
            2 => {
                for s in pads.values_mut() {
                    for _ in 0..1 + rng.usize(20) {
                        let k = rng.usize(s.len());
                        s[k] = *rng.pick(&EXT);
                    }
                }
                "pad samples at extremes"
            }
            3 => {
                for w in 0..256 {
                    wires.entry(w).or_insert_with(|| (0..697).map(|_| 3000 + (rng.gauss() * 5.0) as i16).collect());
                }
                "all 256 wires with noise"
            }
            4 => {
                let v = *rng.pick(&EXT);
                let all_same = rng.bool();
                for s in wires.values_mut().chain(pads.values_mut()) {
                    for x in s.iter_mut() {
                        *x = if all_same { v } else { *rng.pick(&EXT) };
                    }
                }
                "all samples extreme"
            }
            5 => {
                let l = *rng.pick(&[0usize, 1, 2, 99, 100, 101, 511]);
                for s in pads.values_mut() {
                    s.resize(l, 1725);
                }
                "pad requested_samples at boundaries"
            }
            6 => {
                let l = *rng.pick(&[64usize, 65, 100, 101, 102, 129, 130]);
                for s in wires.values_mut() {
                    s.truncate(l);
                }
                "wire waveform lengths at boundaries"
            }
            7 => {
                for c in 0..4 {
                    for r in 0..576 {
                        pads.entry((c * 7 + (i as usize % 7), r)).or_insert_with(|| (0..511).map(|_| 1725 + (rng.gauss() * 3.0) as i16).collect());
                    }
                }
                "4 full pad columns of noise"
            }
            8 => {
                // all pad channels of the touched (board, chip) groups sent: fill whole 4x18 blocks
                let keys: Vec<(usize, usize)> = pads.keys().cloned().take(3).collect();
                for (c, r) in keys {
                    for cc in (c / 4 * 4)..(c / 4 * 4 + 4) {
                        for rr in (r / 72 * 72)..(r / 72 * 72 + 72) {
                            pads.entry((cc, rr)).or_insert_with(|| vec![1725; 511]);
                        }
                    }
                }
                "whole PadWing boards sent"
            }
            9 => {
                run = *rng.pick(&[11500u32, 9277, 10418, 20000, u32::MAX - 1, 0, 5000]);
                "real-data run numbers"
            }
            10 => {
                // duplicated / missing / foreign banks
                extra.push(("B09A".into(), rng.bytes(50)));
                extra.push(("TRBA".into(), rng.bytes(3)));
                extra.push(("MCVX".into(), vec![]));
                if rng.chance(0.15) {
                    extra.push(("CBF1".into(), rng.bytes(8)));
                }
                "foreign banks"
            }
            11 => {
                // wires as suppressed packets / requested_samples 0 and 1
                "suppressed and degenerate ADC packets"
            }
            12 => {
                // saturating negative pulses: huge amplitudes
                for s in wires.values_mut() {
                    for x in s.iter_mut().skip(100) {
                        *x = (*x as i32 * 40 - 117_000).clamp(-32768, 32767) as i16;
                    }
                }
                for s in pads.values_mut() {
                    for x in s.iter_mut().skip(100) {
                        *x = (*x as i32 * 60 - 101_775).clamp(-32768, 32767) as i16;
                    }
                }
                "saturated pulses"
            }
            13 => {
                // positive (wrong-polarity) pulses
                for s in wires.values_mut() {
                    for x in s.iter_mut() {
                        *x = (6000 - *x as i32).clamp(-32768, 32767) as i16;
                    }
                }
                for s in pads.values_mut() {
                    for x in s.iter_mut() {
                        *x = (3450 - *x as i32).clamp(-32768, 32767) as i16;
                    }
                }
                "wrong-polarity pulses"
            }
            14 => {
                // many tracks: merge a second event
                let ev2 = sim::random_event(rng);
                let sg2 = sim::signals(&m, &ev2);
                for (w, s) in &sg2.wires {
                    let d = sim::digitise(s, 3000.0, -32768, 32767);
                    let e = wires.entry(*w).or_insert_with(|| vec![3000; d.len()]);
                    for (a, b) in e.iter_mut().zip(&d) {
                        *a = (*a as i32 + *b as i32 - 3000).clamp(-32768, 32767) as i16;
                    }
                }
                for (k, s) in &sg2.pads {
                    let d = sim::digitise(s, 1725.0, -32768, 32767);
                    let e = pads.entry(*k).or_insert_with(|| vec![1725; d.len()]);
                    for (a, b) in e.iter_mut().zip(&d) {
                        *a = (*a as i32 + *b as i32 - 1725).clamp(-32768, 32767) as i16;
                    }
                }
                "pile-up of two events"
            }
            _ => {
                // random noise everywhere on a few wires and pads, large sigma
                for s in wires.values_mut() {
                    for x in s.iter_mut() {
                        *x = (*x as f64 + rng.gauss() * 300.0).clamp(-32768.0, 32767.0) as i16;
                    }
                }
                "heavy noise"
            }
        };
        let opt11 = if rng.chance(0.5) { (i / 16) % 4 } else { rng.below(4) };
        let use_inv = if run != u32::MAX && run >= 4418 && run < u32::MAX - 1 { &inv_real } else { &inv };
        let mut banks: Banks = Vec::new();
        for (w, s) in &wires {
            if mode == 11 {
                let (name, mac, ch) = &use_inv.wire[*w];
                let digit = std::char::from_digit(*ch as u32, 32).unwrap().to_ascii_uppercase();
                let mut a = Adc::simple(*mac, *ch, s.clone());
                match opt11 {
                    0 => {
                        a.waveform.clear();
                        a.suppression = true;
                        a.requested_samples = 699;
                        banks.push((format!("C{}{}", name, digit), a.encode_short()));
                    }
                    1 => {
                        a.requested_samples = rng.below(2) as u16;
                        a.suppression = true;
                        a.keep_bit = true;
                        a.keep_last = 34;
                        banks.push((format!("C{}{}", name, digit), a.encode()));
                    }
                    2 => {
                        a.suppression = true;
                        a.keep_bit = true;
                        a.keep_last = 34 + rng.below(300) as u16;
                        a.requested_samples = 699;
                        a.waveform.truncate(((a.keep_last as usize - 1) * 2 - 2 + 1 + rng.usize(10)).min(697).max(64));
                        banks.push((format!("C{}{}", name, digit), a.encode()));
                    }
                    _ => banks.push((format!("C{}{}", name, digit), a.encode())),
                }
            } else {
                banks.push(event::wire_bank(use_inv, *w, s.clone()));
            }
        }
        banks.extend(event::pad_banks(use_inv, &pads, *rng.pick(&[200usize, 1400, 9000])));
        banks.push(event::trg_bank(i as u32));
        banks.extend(extra);
        if mode == 10 {
            match rng.below(8) {
                0 => {
                    let k = rng.usize(banks.len());
                    let b = banks[k].clone();
                    banks.push(b);
                }
                1 => {
                    let k = rng.usize(banks.len());
                    banks.remove(k);
                }
                2 => banks.retain(|b| b.0 != "ATAT"),
                _ => {}
            }
            rng.shuffle(&mut banks);
        }
        if i < 2 {
            ctx.sample(json!({"kind": what, "wires": wires.len(), "pads": pads.len(), "banks": banks.len(), "run": run}));
        }
        exercise(ctx, run, &banks, what);
    });
    // ---- bursts: all 8 wires of a pad column fire in the same 1..3 time bins, with as many pad clusters: >= 13
    // avalanches at one, two or three distinct drift radii (degenerate template points for the helix fit)
    ctx.cases("bursts", ctx.tier.pick(48, 1500), |ctx, i, rng| {
        let col = rng.usize(32);
        let nbins = 1 + (i % 3) as usize;
        let k0 = 20 + rng.usize(150);
        let len = 400;
        let mut wires: BTreeMap<usize, Vec<i16>> = BTreeMap::new();
        let mut pads: BTreeMap<(usize, usize), Vec<i16>> = BTreeMap::new();
        let gap = *rng.pick(&[1usize, 2, 7]);
        let mut wsig = vec![vec![0.0f64; len]; 8];
        for b in 0..nbins {
            for w in 0..8 {
                let a = 400.0 - 30.0 * w as f64 - 7.0 * b as f64;
                for (j, r) in m.wr.iter().enumerate() {
                    let idx = 100 + k0 + b * gap + j;
                    if idx < len {
                        wsig[w][idx] += a * r;
                    }
                }
            }
        }
        for w in 0..8 {
            let wire = (col * 8 + 8 + w) % 256;
            wires.insert(wire, wsig[w].iter().map(|x| (3000.0 + x).round().clamp(-32768.0, 32767.0) as i16).collect());
        }
        let row_base = 20 + rng.usize(400);
        let row_step = *rng.pick(&[4usize, 5, 6]);
        for c in 0..8 {
            let row = row_base + c * row_step;
            for (dr, wgt) in [(-1i64, 0.5), (0, 1.0), (1, 0.45)] {
                let mut ps = vec![0.0f64; len];
                for b in 0..nbins {
                    let a = (2500.0 - 150.0 * c as f64 - 11.0 * b as f64) * wgt;
                    for (j, r) in m.pr.iter().enumerate() {
                        let idx = 100 + k0 + b * gap + j;
                        if idx < len {
                            ps[idx] += a * r;
                        }
                    }
                }
                pads.insert((col, (row as i64 + dr) as usize), ps.iter().map(|x| (1725.0 + x).round().clamp(-32768.0, 32767.0) as i16).collect());
            }
        }
        let mut banks: Banks = Vec::new();
        for (w, s) in &wires {
            banks.push(event::wire_bank(&inv, *w, s.clone()));
        }
        banks.extend(event::pad_banks(&inv, &pads, 1400));
        banks.push(event::trg_bank(i as u32));
        exercise(ctx, u32::MAX, &banks, &format!("burst in {} time bin(s)", nbins));
    });
    ctx.cases("bank-mutations", ctx.tier.pick(16, 200), |ctx, i, rng| {
        // a small valid event: TRG + 2 wire banks + one PWB packet
        let w = rng.usize(256);
        let mut wires: BTreeMap<usize, Vec<i16>> = BTreeMap::new();
        wires.insert(w, (0..200).map(|_| 3000 + (rng.gauss() * 4.0) as i16).collect());
        wires.insert((w + 1) % 256, (0..200).map(|_| 3000 + (rng.gauss() * 4.0) as i16).collect());
        let col = crate::evgen::wire_to_column(w);
        let row = 5 + rng.usize(560);
        let mut pads: BTreeMap<(usize, usize), Vec<i16>> = BTreeMap::new();
        for r in row..row + 3 {
            pads.insert((col, r), (0..150).map(|_| 1725 + (rng.gauss() * 3.0) as i16).collect());
        }
        let mut base: Banks = Vec::new();
        for (w, s) in &wires {
            base.push(event::wire_bank(&inv, *w, s.clone()));
        }
        let nw = base.len();
        base.extend(event::pad_banks(&inv, &pads, 5000));
        base.push(event::trg_bank(i as u32));
        exercise(ctx, u32::MAX, &base, "bank mutation base event");
        let vals: [u8; 10] = [0, 1, 2, 0x0F, 0x10, 0x7F, 0x80, 0xFD, 0xFE, 0xFF];
        // TRG: every byte x 10 values
        let ti = base.len() - 1;
        for pos in 0..80 {
            for v in vals {
                let mut b = base.clone();
                if b[ti].1[pos] == v {
                    continue;
                }
                b[ti].1[pos] = v;
                exercise(ctx, u32::MAX, &b, "TRG bank with one byte changed");
            }
        }
        // wire bank: header and footer bytes (baseline re-fixed where the samples are untouched)
        for pos in (0..32).chain(432..436) {
            for v in vals {
                let mut b = base.clone();
                if pos < b[0].1.len() {
                    b[0].1[pos] = v;
                    exercise(ctx, u32::MAX, &b, "wire bank with one byte changed");
                }
            }
        }
        // PWB: the same packet re-chunked so that the final chunk is longer than the others (legal)
        {
            let dec0 = super::must_chunk(&base[nw].1);
            let payload = dec0.payload().to_vec();
            for reg in [100usize, 500, 1000, payload.len() / 3] {
                if reg == 0 || payload.len() < 2 * reg + 1 {
                    continue;
                }
                let full = payload.len() / reg - 1;
                if full < 1 {
                    continue;
                }
                let mut b: Banks = base[..nw].to_vec();
                for k in 0..=full {
                    let (s, e, last) = if k == full { (k * reg, payload.len(), true) } else { (k * reg, (k + 1) * reg, false) };
                    let c = crate::enc::Chunk { device_id: dec0.board_id().device_id(), packet_sequence: k as u32, channel_sequence: k as u16, channel_id: base[nw].1[10], flags: last as u8, chunk_id: k as u16, payload: payload[s..e].to_vec() };
                    b.push((base[nw].0.clone(), c.encode()));
                }
                b.push(base[base.len() - 1].clone());
                exercise(ctx, u32::MAX, &b, "PWB packet chunked with a longer final chunk");
            }
        }
        // PWB: one payload byte changed, chunk CRCs valid
        let pi = nw;
        let dec = super::must_chunk(&base[pi].1);
        let plen = dec.payload().len();
        let positions: Vec<usize> = (0..56.min(plen)).chain((0..20).map(|_| rng.usize(plen))).chain(plen.saturating_sub(8)..plen).collect();
        for pos in positions {
            for v in [0u8, 1, 0x7F, 0x80, 0xFF] {
                let mut payload = dec.payload().to_vec();
                payload[pos] = v;
                let c = crate::enc::Chunk { device_id: dec.board_id().device_id(), packet_sequence: 1, channel_sequence: 1, channel_id: base[pi].1[10], flags: 1, chunk_id: 0, payload };
                let mut b = base.clone();
                b[pi].1 = c.encode();
                exercise(ctx, u32::MAX, &b, "PWB packet with one payload byte changed (valid CRCs)");
            }
        }
    });
    ctx.require("events with avalanches", 20);
    ctx.require("events with a vertex", 10);
    ctx.require("pad samples at extremes: built", 1);
    ctx.require("all samples extreme: built", 1);
}
