//! Inverse detector maps obtained by enumerating the library's public mapping functions.
use alpha_g_detector::alpha16::{self, aw_map::TpcWirePosition, Adc32ChannelId};
use alpha_g_detector::padwing::{self, map::TpcPadPosition, AfterId, PadChannelId};
pub struct Inv { pub wire: Vec<(String, [u8; 6], u8)>, /// [col][row] -> (board name, mac, device id, chip index 0..3, readout index)
    pub pad: Vec<Vec<(String, [u8; 6], u32, u8, u16)>> }
pub fn inverse(run: u32) -> Inv {
    let mut wire = vec![(String::new(), [0u8; 6], 0u8); 256];
    for (name, mac) in crate::enc::A16_MACS { let b = alpha16::BoardId::try_from(name).unwrap(); assert_eq!(b.mac_address(), mac);
        for ch in 0..32u8 { let cid = Adc32ChannelId::try_from(ch).unwrap(); let w = TpcWirePosition::try_new(run, b, cid).or_else(|_| TpcWirePosition::try_new(5000, b, cid)).unwrap(); /* runs without a map: names of run 5000, only used to build (failing) events */ wire[usize::from(w)] = (name.to_string(), mac, ch); } }
    let mut pad = vec![vec![(String::new(), [0u8; 6], 0u32, 0u8, 0u16); 576]; 32];
    for n in 0..100 { let name = format!("{:02}", n); let Ok(b) = padwing::BoardId::try_from(&name[..]) else { continue };
        for (ci, chip) in ['A', 'B', 'C', 'D'].iter().enumerate() { let a = AfterId::try_from(*chip).unwrap();
            for ro in 1..=79u16 { if let padwing::ChannelId::Pad(pc) = padwing::ChannelId::try_from(ro).unwrap() { let _: PadChannelId = pc;
                let run_p = if run >= 4418 { run } else { 5000 }; if let Ok(p) = TpcPadPosition::try_new(run_p, b, a, pc) { pad[usize::from(p.column)][usize::from(p.row)] = (name.clone(), b.mac_address(), b.device_id(), ci as u8, ro); } } } } }
    Inv { wire, pad }
}
