//! Calibration oracle: epochs transcribed from the property / source comments, values parsed by the
//! harness from the shipped JSON / RON files (no library code involved).
use std::collections::HashMap;

fn dir() -> String {
    format!("{}/physics/data/calibration", crate::core::repo_root())
}

fn parse_ron(path: &str, tuple: bool) -> HashMap<(usize, usize), f64> {
    let s = std::fs::read_to_string(path).unwrap();
    let mut m = HashMap::new();
    let mut rest = &s[..];
    while let Some(i) = rest.find("(column:") {
        rest = &rest[i + 8..];
        let j = rest.find(',').unwrap();
        let c: usize = rest[..j].trim().parse().unwrap();
        rest = &rest[j + 1..];
        let k = rest.find("row:").unwrap();
        rest = &rest[k + 4..];
        let j = rest.find(')').unwrap();
        let r: usize = rest[..j].trim().parse().unwrap();
        rest = &rest[j + 1..];
        let k = rest.find(':').unwrap();
        rest = &rest[k + 1..];
        let v: f64 = if tuple {
            let a = rest.find('(').unwrap();
            let b = rest.find(',').unwrap();
            rest[a + 1..b].trim().parse().unwrap()
        } else {
            let b = rest.find(|ch| ch == ',' || ch == '}').unwrap();
            rest[..b].trim().parse().unwrap()
        };
        m.insert((c, r), v);
    }
    m
}
fn parse_json_wires(path: &str, tuple: bool) -> HashMap<usize, f64> {
    let v: serde_json::Value = serde_json::from_slice(&std::fs::read(path).unwrap()).unwrap();
    v.as_object().unwrap().iter().map(|(k, x)| (k.parse().unwrap(), if tuple { x[0].as_f64().unwrap() } else { x.as_f64().unwrap() })).collect()
}

pub struct Calib {
    pub run: u32,
    pub wire_map: bool,
    pub pad_map: bool,
    /// i16 baseline after round(), None = no epoch for this run
    pub wire_baseline: Option<HashMap<usize, i16>>,
    pub wire_gain: Option<HashMap<usize, f64>>,
    pub wire_delay: Option<usize>,
    pub pad_baseline: Option<HashMap<(usize, usize), i16>>,
    pub pad_gain: Option<HashMap<(usize, usize), f64>>,
    pub pad_delay: Option<usize>,
}

pub fn load(run: u32) -> Calib {
    let sim = run == u32::MAX;
    let d = dir();
    let round = |m: HashMap<usize, f64>| m.into_iter().map(|(k, v)| (k, v.round() as i16)).collect::<HashMap<_, _>>();
    let roundp = |m: HashMap<(usize, usize), f64>| m.into_iter().map(|(k, v)| (k, v.round() as i16)).collect::<HashMap<_, _>>();
    let wb = if sim { Some("simulation_complete.json") } else if run >= 7026 { Some("7026_complete.json") } else { None };
    let wg = if sim { Some("simulation_complete.json") } else if run >= 11084 { Some("11186_complete.json") } else if run >= 9277 { Some("9277_complete.json") } else { None };
    let pb = if sim { Some("simulation_complete.ron") } else if run >= 11084 { Some("11192_complete.ron") } else if run >= 9277 { Some("9277_complete_handwritten_cherry_picked_see_commit.ron") } else { None };
    let pg = if sim { Some("simulation_complete.ron") } else if run >= 11084 { Some("11186_complete.ron") } else if run >= 9277 { Some("9277_complete.ron") } else { None };
    Calib {
        run,
        wire_map: sim || run >= 2941,
        pad_map: sim || run >= 4418,
        wire_baseline: wb.map(|f| round(parse_json_wires(&format!("{d}/wires/baseline/{f}"), true))),
        wire_gain: wg.map(|f| parse_json_wires(&format!("{d}/wires/gain/{f}"), false)),
        wire_delay: if sim { Some(100) } else if run >= 7000 { Some(129) } else { None },
        pad_baseline: pb.map(|f| roundp(parse_ron(&format!("{d}/pads/baseline/{f}"), true))),
        pad_gain: pg.map(|f| parse_ron(&format!("{d}/pads/gain/{f}"), false)),
        pad_delay: if sim { Some(100) } else if run >= 7000 { Some(115) } else { None },
    }
}

#[derive(Clone, Copy, PartialEq, Debug)]
pub enum Need {
    /// everything the channel needs is available
    Available,
    /// something is missing and the channel has post-delay samples: the build must fail
    MissingNeeded,
    /// something is missing but the channel contributes no post-delay samples: either outcome accepted
    MissingDontCare,
}

impl Calib {
    pub fn wire_need(&self, wire: usize, n_samples: usize) -> Need {
        if n_samples == 0 {
            return Need::Available; // a sample-less packet needs nothing
        }
        let ok = self.wire_map && self.wire_baseline.as_ref().map(|m| m.contains_key(&wire)).unwrap_or(false) && self.wire_gain.as_ref().map(|m| m.contains_key(&wire)).unwrap_or(false) && self.wire_delay.is_some();
        if ok {
            Need::Available
        } else if n_samples > self.wire_delay.unwrap_or(129) {
            Need::MissingNeeded
        } else {
            Need::MissingDontCare
        }
    }
    pub fn pad_need(&self, pad: (usize, usize), n_samples: usize) -> Need {
        let ok = self.pad_map && self.pad_baseline.as_ref().map(|m| m.contains_key(&pad)).unwrap_or(false) && self.pad_gain.as_ref().map(|m| m.contains_key(&pad)).unwrap_or(false) && self.pad_delay.is_some();
        if ok {
            Need::Available
        } else if n_samples > self.pad_delay.unwrap_or(115) {
            Need::MissingNeeded
        } else {
            Need::MissingDontCare
        }
    }
    pub fn wire_expected(&self, wire: usize, raw: &[i16]) -> Option<Vec<f64>> {
        let b = *self.wire_baseline.as_ref()?.get(&wire)?;
        let g = *self.wire_gain.as_ref()?.get(&wire)?;
        let v: Vec<f64> = raw.iter().skip(self.wire_delay?).map(|x| f64::from(*x as i32 - b as i32) * g).collect();
        if v.is_empty() {
            None
        } else {
            Some(v)
        }
    }
    pub fn pad_expected(&self, pad: (usize, usize), raw: &[i16]) -> Option<Vec<f64>> {
        let b = *self.pad_baseline.as_ref()?.get(&pad)?;
        let g = *self.pad_gain.as_ref()?.get(&pad)?;
        let v: Vec<f64> = raw.iter().skip(self.pad_delay?).map(|x| f64::from(*x as i32 - b as i32) * g).collect();
        if v.is_empty() {
            None
        } else {
            Some(v)
        }
    }
}
