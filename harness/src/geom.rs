//! Space-point generators for the reconstruction monitors (C14, C15, C16): physical tracks and
//! the degenerate families named in the quantifier of C14.
use crate::core::Rng;
use alpha_g_physics::SpacePoint;
use std::f64::consts::PI;
use uom::si::angle::radian;
use uom::si::f64::{Angle, Length};
use uom::si::length::meter;

pub fn sp(r: f64, phi: f64, z: f64) -> SpacePoint {
    SpacePoint { r: Length::new::<meter>(r), phi: Angle::new::<radian>(phi), z: Length::new::<meter>(z) }
}
pub fn sp_xyz(x: f64, y: f64, z: f64) -> SpacePoint {
    sp(x.hypot(y), y.atan2(x), z)
}
pub fn rpz(p: &SpacePoint) -> (f64, f64, f64) {
    (p.r.get::<meter>(), p.phi.get::<radian>(), p.z.get::<meter>())
}
pub fn xyz(p: &SpacePoint) -> (f64, f64, f64) {
    (p.x().get::<meter>(), p.y().get::<meter>(), p.z.get::<meter>())
}

/// Points of a particle leaving (vx, vy, vz) with azimuth psi, curvature radius `rad`, charge sign q and
/// dz/ds `slope`; points every `step` metres of arc between r_min and r_max, with Gaussian smearing.
pub fn track_points(rng: &mut Rng, v: (f64, f64, f64), psi: f64, rad: f64, q: f64, slope: f64, step: f64, smear: f64, r_min: f64, r_max: f64) -> Vec<SpacePoint> {
    let (dx, dy) = (psi.cos(), psi.sin());
    let (nx, ny) = (-dy * q, dx * q);
    let (cx, cy) = (v.0 + rad * nx, v.1 + rad * ny);
    let a0 = (v.1 - cy).atan2(v.0 - cx);
    let mut out = Vec::new();
    let mut s = 0.0;
    let mut inside = false;
    while s < 1.5 {
        let a = a0 + q * s / rad;
        let (x, y, z) = (cx + rad * a.cos(), cy + rad * a.sin(), v.2 + slope * s);
        let r = x.hypot(y);
        if r > r_max && inside {
            break;
        }
        if r >= r_min && r <= r_max {
            inside = true;
            out.push(sp_xyz(x + smear * rng.gauss(), y + smear * rng.gauss(), z + smear * rng.gauss()));
        }
        s += step;
    }
    out
}
pub fn random_track(rng: &mut Rng, vz: f64) -> Vec<SpacePoint> {
    let v = (rng.range(-0.01, 0.01), rng.range(-0.01, 0.01), vz);
    let psi = rng.range(-PI, PI);
    let rad = rng.range(0.3, 3.3);
    let q = if rng.bool() { 1.0 } else { -1.0 };
    // one track in three is nearly flat (tiny pitch: large Kepler eccentricity in the closest-point solver)
    let slope = if rng.below(3) == 0 { (if rng.bool() { 1.0 } else { -1.0 }) * 10f64.powf(rng.range(-6.0, -1.0)) } else { rng.range(-0.8, 0.8) };
    let step = rng.range(0.002, 0.006);
    let smear = *rng.pick(&[0.0, 1e-4, 5e-4, 2e-3]);
    track_points(rng, v, psi, rad, q, slope, step, smear, 0.11, 0.19)
}
/// Points on an explicit helix x = R cos(t+phi0)+x0, y = R sin(t+phi0)+y0, z = h/2pi t + z0.
pub fn helix_points(p: [f64; 6], ts: &[f64]) -> Vec<SpacePoint> {
    ts.iter().map(|t| sp_xyz(p[3] * (t + p[4]).cos() + p[0], p[3] * (t + p[4]).sin() + p[1], p[5] / (2.0 * PI) * t + p[2])).collect()
}

pub const FAMILIES: [&str; 22] = [
    "helix with special pitch",
    "collinear ray through the origin",
    "collinear on the x axis",
    "collinear with shared z",
    "collinear perturbed",
    "repeated point",
    "two distinct points",
    "equal radii",
    "vertical line",
    "dyadic grid",
    "circle through the origin",
    "random cloud",
    "physical track",
    "physical track with duplicates",
    "vertical line perturbed",
    "inner clump plus one far hit",
    "equal radii, two or three distinct points",
    "two or three distinct radii",
    "few distinct points repeated",
    "curler inside the drift volume with a gap in its hits",
    "radii 1e-16 m apart in chains, z unrelated",
    "track stub entirely inside the inner cathode or entirely beyond the wires",
];
// (the second line: values on either side of powers of f64::EPSILON - 4.9e-32, 2.2e-16, 1.49e-8, 6.06e-6, 1.22e-4 - where a
// guard written on h^2, h^3 or sqrt(h) instead of |h| would sit)
pub const PITCHES: [f64; 59] = [0.0, 5e-324, -5e-324, 1e-310, -1e-310, 1e-300, 1e-17, -1e-17, 1e-16, 2.2e-16, -2.2e-16, 1e-15, 1e-12, 1e-9, 1e-6, 1e-4, 1e-3, 1e-2, 0.1, -0.1, 0.5, 1.0, -1.0, 3.0, 10.0, 100.0, -100.0,
    4e-32, 6e-32, 1e-31, 2e-9, 5e-9, -5e-9, 1e-8, 1.4e-8, -1.4e-8, 1.6e-8, 3e-8, 1e-7, 5e-6, 7e-6, -7e-6, 1e-5, 1.1e-4, 1.3e-4,
    // normal numbers far below 1e-17, around sqrt / cbrt of f64::MIN_POSITIVE (round 10)
    1.4e-154, 1.5e-154, -1.5e-154, 2e-154, -2e-154, 3e-154, 1e-153, -1e-153, 1e-152, 3e-103, 1e-100, 1e-60, 1e-30, -1e-20];

/// n points (n >= 2) of the given family, all with r in [0.05, 0.25], |z| <= 1.3.
pub fn family(rng: &mut Rng, fam: usize, n: usize) -> Vec<SpacePoint> {
    let z0 = rng.range(-1.1, 1.1);
    match fam {
        0 => {
            // a helix that crosses the drift volume, with a special pitch
            let h = if rng.bool() { *rng.pick(&PITCHES) } else { (if rng.bool() { 1.0 } else { -1.0 }) * 10f64.powf(rng.range(-17.0, 2.0)) };
            let rad = rng.range(0.1, 3.0);
            let a = rng.range(-PI, PI);
            let d = rad + rng.range(-0.02, 0.02);
            // a z spread far below 1e-17 m is only representable around z = 0
            let z0 = if h.abs() < 1e-17 && rng.bool() { 0.0 } else { z0 };
            let p = [d * a.cos(), d * a.sin(), z0, rad, rng.range(-PI, PI), h];
            // keep parameters t whose point is inside the allowed radial range
            let mut ts = Vec::new();
            let mut tries = 0;
            while ts.len() < n && tries < 100_000 {
                tries += 1;
                let t = rng.range(-PI, PI);
                let q = helix_points(p, &[t])[0];
                let (r, _, z) = rpz(&q);
                if (0.05..=0.25).contains(&r) && z.abs() <= 1.3 {
                    ts.push(t);
                }
            }
            if ts.len() < 3 {
                return family(rng, 11, n);
            }
            helix_points(p, &ts)
        }
        1 => {
            let phi = rng.range(-PI, PI);
            let dz = rng.range(-0.5, 0.5);
            (0..n).map(|i| { let f = i as f64 / (n - 1).max(1) as f64; sp(0.06 + 0.18 * f, phi, (z0 + dz * f).clamp(-1.3, 1.3)) }).collect()
        }
        2 => (0..n).map(|i| sp_xyz(0.06 + 0.18 * i as f64 / (n - 1).max(1) as f64, 0.0, z0 + 0.001 * i as f64)).collect(),
        3 => {
            // a chord of the annulus, all at the same z
            let y = rng.range(-0.04, 0.04);
            (0..n).map(|i| sp_xyz(0.06 + 0.17 * i as f64 / (n - 1).max(1) as f64, y, z0)).collect()
        }
        4 => {
            let eps = 10f64.powf(rng.range(-18.0, -2.0));
            let y = rng.range(-0.04, 0.04);
            let phi = rng.range(-PI, PI);
            (0..n)
                .map(|i| {
                    let x = 0.07 + 0.15 * i as f64 / (n - 1).max(1) as f64;
                    let yy = y + eps * rng.range(-1.0, 1.0);
                    // rotate by phi
                    sp_xyz(x * phi.cos() - yy * phi.sin(), x * phi.sin() + yy * phi.cos(), z0 + 0.002 * i as f64 * rng.range(0.0, 1.0))
                })
                .collect()
        }
        5 => {
            let p = sp(rng.range(0.05, 0.25), rng.range(-PI, PI), z0);
            vec![p; n]
        }
        6 => {
            let a = sp(rng.range(0.05, 0.25), rng.range(-PI, PI), z0);
            let b = sp(rng.range(0.05, 0.25), rng.range(-PI, PI), z0 + rng.range(-0.02, 0.02));
            (0..n).map(|i| if rng.bool() || i == 0 { a } else { b }).collect()
        }
        7 => {
            let r = rng.range(0.05, 0.25);
            let phi = rng.range(-PI, PI);
            (0..n).map(|i| sp(r, phi + 0.01 * i as f64 * if rng.chance(0.1) { 0.0 } else { 1.0 }, z0 + 0.001 * i as f64)).collect()
        }
        8 => {
            let (r, phi) = (rng.range(0.05, 0.25), rng.range(-PI, PI));
            (0..n).map(|i| sp(r, phi, (z0 + 0.004 * i as f64).clamp(-1.3, 1.3))).collect()
        }
        9 => {
            // coordinates that are exact dyadic rationals
            (0..n).map(|i| sp_xyz(0.0625 + 0.0078125 * (i % 16) as f64, 0.0078125 * ((i / 16) % 8) as f64 - 0.03125, ((z0 * 64.0).round() + (i / 128) as f64) / 64.0)).collect()
        }
        10 => {
            // circle through the origin: centre at distance = radius
            let rad = rng.range(0.06, 0.6);
            let a = rng.range(-PI, PI);
            let (cx, cy) = (rad * a.cos(), rad * a.sin());
            let mut out = Vec::new();
            let mut tries = 0;
            while out.len() < n && tries < 100_000 {
                tries += 1;
                let t = rng.range(-PI, PI);
                let (x, y) = (cx + rad * t.cos(), cy + rad * t.sin());
                if (0.05..=0.25).contains(&x.hypot(y)) {
                    out.push(sp_xyz(x, y, z0 + 0.05 * t));
                }
            }
            out
        }
        11 => (0..n).map(|_| sp(rng.range(0.05, 0.25), rng.range(-PI, PI), rng.range(-1.3, 1.3))).collect(),
        12 => {
            let mut t = random_track(rng, z0.clamp(-0.8, 0.8));
            if t.len() < 3 {
                return family(rng, 11, n);
            }
            t.truncate(n.max(13));
            t
        }
        16 => {
            // the same radius everywhere, only two or three distinct (phi, z) positions
            let r = rng.range(0.06, 0.24);
            let k = 2 + rng.usize(2);
            let base: Vec<SpacePoint> = (0..k).map(|j| sp(r, rng.range(-PI, PI) * if j == 0 { 1.0 } else { 0.0 } + 0.3 + 0.05 * j as f64, z0 + 0.01 * j as f64)).collect();
            (0..n).map(|i| base[i % k]).collect()
        }
        17 => {
            // many points, but only two or three distinct radii (hits of one or two time bins)
            let k = 2 + rng.usize(2);
            let radii: Vec<f64> = (0..k).map(|j| 0.12 + 0.004 * j as f64 + rng.range(0.0, 0.001)).collect();
            let phi = rng.range(-PI, PI);
            (0..n).map(|i| sp(radii[i % k], phi + 0.02 * (i / k) as f64, z0 + 0.015 * (i / k) as f64)).collect()
        }
        18 => {
            // three to five distinct points, each repeated
            let k = 3 + rng.usize(3);
            let base: Vec<SpacePoint> = (0..k).map(|_| sp(rng.range(0.06, 0.24), rng.range(-0.3, 0.3), z0 + rng.range(-0.05, 0.05))).collect();
            (0..n).map(|_| base[rng.usize(k)]).collect()
        }
        21 => {
            // no hit between the cathodes (0.1092 m .. 0.19 m): a stub at r = 5..10.9 cm or at r = 19.1..25 cm
            let (lo, hi) = if rng.bool() { (0.05, 0.1091) } else { (0.1901, 0.25) };
            let phi = rng.range(-PI, PI);
            let slope = rng.range(-1.0, 1.0);
            let curl = rng.range(-2.0, 2.0);
            (0..n).map(|i| { let f = i as f64 / (n - 1).max(1) as f64; let r = lo + (hi - lo) * f; sp(r, phi + curl * (r - lo), (z0 + slope * (r - lo)).clamp(-1.3, 1.3)) }).collect()
        }
        20 => {
            // hits whose radii differ by about 1e-16 m from one to the next (less than f64::EPSILON pairwise, more than
            // that end to end) while z and phi wander independently: a tolerance-based ordering is not transitive here
            let r0 = rng.range(0.11, 0.19);
            let step = *rng.pick(&[1.1e-16, 0.7e-16, 2.0e-16, 1e-15, 1e-13]);
            let phi = rng.range(-PI, PI);
            let levels = 20 + rng.usize(40);
            (0..n).map(|i| sp(r0 + step * (i % levels) as f64, phi + 0.002 * rng.range(-1.0, 1.0) + 0.003 * i as f64, (z0 + 0.02 * rng.range(-1.0, 1.0) + 0.001 * (i as f64 * 7.0 % 13.0)).clamp(-1.3, 1.3))).collect()
        }
        19 => {
            // a low-momentum curler that stays inside the drift volume: hits over most of the revolution, none in a
            // window placed at (or near) the point farthest from / closest to the beamline, or anywhere
            let d = rng.range(0.145, 0.155);
            let rad = rng.range(0.02, 0.0385);
            let a = rng.range(-PI, PI);
            let phase = rng.range(-PI, PI);
            let h = if rng.chance(0.6) { 0.0 } else { *rng.pick(&[5e-324, 1e-300, 1e-12, 1e-6, 1e-3, 0.01, -0.01, 0.05]) };
            let p = [d * a.cos(), d * a.sin(), z0.clamp(-1.0, 1.0), rad, phase, h];
            // parameter (before adding the phase) of the farthest point is the direction of the axis: t + phase = a
            let wrap = |x: f64| (x + PI).rem_euclid(2.0 * PI) - PI;
            let far = wrap(a - phase);
            let centre = match rng.below(4) {
                0 => far + rng.range(-0.4, 0.4),
                1 => wrap(far + PI) + rng.range(-0.4, 0.4),
                2 => far,
                _ => rng.range(-PI, PI),
            };
            let half = rng.range(0.1, 0.9);
            let span = rng.range(2.0, 3.1);
            let mut ts = Vec::new();
            let mut tries = 0;
            while ts.len() < n && tries < 100_000 {
                tries += 1;
                let t = rng.range(-span, span);
                if wrap(t - centre).abs() > half {
                    ts.push(t);
                }
            }
            // often the two extreme points themselves (farthest from / closest to the beamline: the ends of a diameter,
            // exactly half a turn apart)
            if rng.bool() {
                ts.push(far);
                ts.push(if far > 0.0 { far - PI } else { far + PI });
            }
            helix_points(p, &ts)
        }
        14 => {
            // hits stacked in z whose x-y scatter is 1e-16..1e-6 m: the fitted helix is extremely thin
            let (r, phi) = (rng.range(0.06, 0.24), rng.range(-PI, PI));
            let eps = 10f64.powf(rng.range(-16.0, -6.0));
            let dz = *rng.pick(&[0.004, 0.02, 0.001]);
            let zs = rng.range(-1.0, 0.0);
            (0..n).map(|i| sp_xyz(r * phi.cos() + eps * rng.range(-1.0, 1.0), r * phi.sin() + eps * rng.range(-1.0, 1.0), (zs + dz * i as f64).clamp(-1.3, 1.3))).collect()
        }
        15 => {
            // most hits (numerically) at one radius, one slightly further, one far out; same phi or nearly
            let phi = rng.range(-PI, PI);
            let r0 = rng.range(0.06, 0.2);
            let d1 = r0 * 10f64.powf(rng.range(-6.0, -3.0));
            let r2 = r0 + rng.range(0.01, 0.04);
            let dphi = if rng.bool() { 0.0 } else { 10f64.powf(rng.range(-17.0, -9.0)) };
            let slope = rng.range(-1.0, 1.0);
            let mut v: Vec<SpacePoint> = (0..n.saturating_sub(2)).map(|_| sp(r0, phi, z0 + slope * r0)).collect();
            v.push(sp(r0 + d1, phi + dphi, z0 + slope * (r0 + d1)));
            v.push(sp(r2, phi - dphi, (z0 + slope * r2).clamp(-1.3, 1.3)));
            v
        }
        _ => {
            let mut t = random_track(rng, z0.clamp(-0.8, 0.8));
            if t.len() < 3 {
                return family(rng, 11, n);
            }
            for _ in 0..1 + rng.usize(10) {
                let k = rng.usize(t.len());
                t.push(t[k]);
            }
            t
        }
    }
}
