//! Pack per-wire / per-pad raw waveforms into (bank name, bytes) lists.
use crate::enc::*; use crate::maps::Inv; use std::collections::BTreeMap;
pub fn wire_bank(inv: &Inv, wire: usize, raw: Vec<i16>) -> (String, Vec<u8>) {
    let (name, mac, ch) = &inv.wire[wire];
    let digit = std::char::from_digit(*ch as u32, 32).unwrap().to_ascii_uppercase();
    (format!("C{}{}", name, digit), Adc::simple(*mac, *ch, raw).encode())
}
/// pads: (col,row)->raw samples (all same length n<=511). Sends only the listed channels.
pub fn pad_banks(inv: &Inv, pads: &BTreeMap<(usize, usize), Vec<i16>>, chunk_size: usize) -> Vec<(String, Vec<u8>)> {
    let mut groups: BTreeMap<(String, u8), Vec<(u16, Vec<i16>)>> = BTreeMap::new();
    let mut meta: BTreeMap<(String, u8), ([u8; 6], u32)> = BTreeMap::new();
    for ((c, r), s) in pads { let (name, mac, dev, chip, ro) = &inv.pad[*c][*r]; groups.entry((name.clone(), *chip)).or_default().push((*ro, s.clone())); meta.insert((name.clone(), *chip), (*mac, *dev)); }
    let mut out = Vec::new();
    for ((name, chip), mut chans) in groups { chans.sort_by_key(|c| c.0); let (mac, dev) = meta[&(name.clone(), chip)]; let n = chans[0].1.len() as u16;
        let p = Pwb::new(['A', 'B', 'C', 'D'][chip as usize], mac, n, chans);
        for ch in p.chunks(dev, chip, chunk_size) { out.push((format!("PC{}", name), ch.encode())); } }
    out
}
pub fn trg_bank(timestamp: u32) -> (String, Vec<u8>) { ("ATAT".to_string(), Trg::simple(timestamp, 77).encode()) }
