//! Pack per-wire / per-pad raw waveforms into (bank name, bytes) lists.
use crate::enc::*; use crate::maps::Inv; use std::collections::BTreeMap;
pub fn wire_bank(inv: &Inv, wire: usize, raw: Vec<i16>) -> (String, Vec<u8>) {
    let (name, mac, ch) = &inv.wire[wire];
    let digit = std::char::from_digit(*ch as u32, 32).unwrap().to_ascii_uppercase();
    (format!("C{}{}", name, digit), Adc::simple(*mac, *ch, raw).encode())
}
/// As `wire_bank`, with the footer's keep fields set to a legal combination chosen at random: keep_bit clear; keep_bit
/// set with keep_last at its minimum (34), anywhere, or at its maximum for the sample count (the signal still over
/// threshold at the very last sample).
pub fn wire_bank_varied(inv: &Inv, wire: usize, raw: Vec<i16>, rng: &mut crate::core::Rng) -> (String, Vec<u8>) {
    let (name, mac, ch) = &inv.wire[wire];
    let digit = std::char::from_digit(*ch as u32, 32).unwrap().to_ascii_uppercase();
    let n = raw.len();
    let mut a = Adc::simple(*mac, *ch, raw);
    let kl_max = ((n + 3) / 2).min(4095) as u16; // n > (keep_last - 1) * 2 - 2
    if n >= 64 && kl_max >= 34 {
        match rng.below(4) {
            0 => {}
            1 => { a.keep_bit = true; a.keep_last = 34; }
            2 => { a.keep_bit = true; a.keep_last = kl_max; }
            _ => { a.keep_bit = true; a.keep_last = 34 + rng.below((kl_max - 33) as u64) as u16; }
        }
    }
    (format!("C{}{}", name, digit), a.encode())
}
/// pads: (col,row)->raw samples (all same length n<=511). Sends only the listed channels.
pub fn pad_banks(inv: &Inv, pads: &BTreeMap<(usize, usize), Vec<i16>>, chunk_size: usize) -> Vec<(String, Vec<u8>)> {
    let mut groups: BTreeMap<(String, u8), Vec<(u16, Vec<i16>)>> = BTreeMap::new();
    let mut meta: BTreeMap<(String, u8), ([u8; 6], u32)> = BTreeMap::new();
    for ((c, r), s) in pads { let (name, mac, dev, chip, ro) = &inv.pad[*c][*r]; groups.entry((name.clone(), *chip)).or_default().push((*ro, s.clone())); meta.insert((name.clone(), *chip), (*mac, *dev)); }
    let mut out = Vec::new();
    for ((name, chip), mut chans) in groups { chans.sort_by_key(|c| c.0); let (mac, dev) = meta[&(name.clone(), chip)]; let n = chans[0].1.len() as u16;
        let p = Pwb::new(['A', 'B', 'C', 'D'][chip as usize], mac, n, chans);
        for ch in p.chunks(dev, chip, chunk_size) { out.push((format!("PC{}", name), ch.encode())); } }
    out
}
/// As `pad_banks`, but every packet carries its own header metadata (trigger timestamp a few ticks apart or unrelated,
/// delay, source, counters, threshold mask, SCA cell) and its chunks their own sequence numbers: none of it may matter.
pub fn pad_banks_varied(inv: &Inv, pads: &BTreeMap<(usize, usize), Vec<i16>>, chunk_size: usize, rng: &mut crate::core::Rng, spread_sel: Option<usize>) -> Vec<(String, Vec<u8>)> {
    let mut groups: BTreeMap<(String, u8), Vec<(u16, Vec<i16>)>> = BTreeMap::new();
    let mut meta: BTreeMap<(String, u8), ([u8; 6], u32)> = BTreeMap::new();
    for ((c, r), s) in pads { let (name, mac, dev, chip, ro) = &inv.pad[*c][*r]; groups.entry((name.clone(), *chip)).or_default().push((*ro, s.clone())); meta.insert((name.clone(), *chip), (*mac, *dev)); }
    let mut out = Vec::new();
    let t0 = rng.next() & 0xFFFF_FFFF_FFFF;
    const SPREADS: [u64; 8] = [8, 0, 4, 1, 9, 1000, 5, u64::MAX];
    let spread = match spread_sel { Some(k) => SPREADS[k % 8], None => *rng.pick(&SPREADS) };
    for (k, ((name, chip), mut chans)) in groups.into_iter().enumerate() { chans.sort_by_key(|c| c.0); let (mac, dev) = meta[&(name.clone(), chip)]; let n = chans[0].1.len() as u16;
        let mut p = Pwb::new(['A', 'B', 'C', 'D'][chip as usize], mac, n, chans);
        p.trigger_timestamp = if spread == u64::MAX { rng.next() & 0xFFFF_FFFF_FFFF } else { (t0 + spread / 2 * (k as u64 % 3)) & 0xFFFF_FFFF_FFFF };
        p.trigger_delay = rng.next() as u16;
        p.trigger_source = *rng.pick(&[0u8, 1, 3]);
        p.event_counter = rng.next() as u32;
        p.last_sca_cell = rng.below(512) as u16;
        p.fifo_max_depth = rng.next() as u16;
        p.wdepth = rng.next() as u8;
        p.rdepth = rng.next() as u8;
        p.threshold_mask = (rng.next() as u128 | (rng.next() as u128) << 64) & ((1u128 << 79) - 1);
        let (ps, cs) = (rng.next() as u32, rng.next() as u16);
        for mut ch in p.chunks(dev, chip, chunk_size) { ch.packet_sequence = ps.wrapping_add(ch.chunk_id as u32 * 3); ch.channel_sequence = cs.wrapping_add(ch.chunk_id); out.push((format!("PC{}", name), ch.encode())); } }
    out
}
pub fn trg_bank(timestamp: u32) -> (String, Vec<u8>) { ("ATAT".to_string(), Trg::simple(timestamp, 77).encode()) }
