//! Decoders under Miri: a few hundred structured inputs (valid packets, single-field mutations, truncations).
//! Prints `MIRI-PASS decodes=<n> ok=<k>` at the end; any undefined behaviour makes Miri abort with a report.
#[path = "../../harness/src/enc.rs"]
#[allow(dead_code)]
mod enc;
use alpha_g_detector::alpha16::AdcPacket;
use alpha_g_detector::chronobox::chronobox_fifo;
use alpha_g_detector::midas::MainEventBankName;
use alpha_g_detector::padwing::{Chunk, PwbPacket};
use alpha_g_detector::trigger::TrgPacket;
use enc::*;

struct Rng(u64);
impl Rng {
    fn next(&mut self) -> u64 {
        self.0 = self.0.wrapping_add(0x9E3779B97F4A7C15);
        let mut z = self.0;
        z = (z ^ (z >> 30)).wrapping_mul(0xBF58476D1CE4E5B9);
        z = (z ^ (z >> 27)).wrapping_mul(0x94D049BB133111EB);
        z ^ (z >> 31)
    }
}

fn main() {
    let seed: u64 = std::env::args().nth(1).and_then(|s| s.parse().ok()).unwrap_or(1);
    let rounds: usize = std::env::args().nth(2).and_then(|s| s.parse().ok()).unwrap_or(40);
    let mut rng = Rng(seed);
    let (mut n, mut ok) = (0u64, 0u64);
    let mut tally = |r: bool| {
        n += 1;
        ok += r as u64;
    };
    for round in 0..rounds {
        // ADC
        let wf: Vec<i16> = (0..64 + (rng.next() % 8) as usize).map(|_| rng.next() as i16).collect();
        let mut a = Adc::simple(A16_MACS[(rng.next() % 8) as usize].1, (rng.next() % 32) as u8, wf);
        if round % 3 == 0 {
            a.suppression = true;
            a.keep_bit = true;
            a.keep_last = 34;
            a.requested_samples += 5;
        }
        let mut b = a.encode();
        tally(AdcPacket::try_from(&b[..]).map(|p| format!("{}", p).len()).is_ok());
        let k = (rng.next() as usize) % b.len();
        b[k] = rng.next() as u8;
        tally(AdcPacket::try_from(&b[..]).is_ok());
        b.truncate((rng.next() as usize) % b.len());
        tally(AdcPacket::try_from(&b[..]).is_ok());
        tally(AdcPacket::try_from(&a.encode_short()[..]).is_ok());
        // PWB chunks and packets
        let rs = (rng.next() % 6) as u16;
        let pw = Pwb::new(['A', 'B', 'C', 'D'][(rng.next() % 4) as usize], [236, 40, 255, 135, 84, 2], rs, vec![(4, (0..rs).map(|_| rng.next() as i16).collect()), (79, (0..rs).map(|_| rng.next() as i16).collect())]);
        let raw = pw.chunks(2281646316, (rng.next() % 4) as u8, 1 + (rng.next() % 40) as usize);
        let mut chunks: Vec<Chunk> = Vec::new();
        for c in &raw {
            let mut e = c.encode();
            tally(Chunk::try_from(&e[..]).map(|c| { chunks.push(c.clone()); format!("{}", c).len() }).is_ok());
            let k = (rng.next() as usize) % e.len();
            e[k] ^= 1 << (rng.next() % 8);
            tally(Chunk::try_from(&e[..]).is_ok());
        }
        if round % 2 == 1 && chunks.len() > 1 {
            chunks.swap(0, 1);
        }
        if round % 5 == 4 {
            chunks.pop();
        }
        tally(PwbPacket::try_from(chunks).map(|p| format!("{}", p).len()).is_ok());
        let mut pb = pw.encode();
        tally(PwbPacket::try_from(&pb[..]).is_ok());
        let k = (rng.next() as usize) % pb.len();
        pb[k] = rng.next() as u8;
        tally(PwbPacket::try_from(&pb[..]).is_ok());
        // TRG
        let mut t = Trg::simple(rng.next() as u32, (rng.next() >> 40) as u32).encode();
        tally(TrgPacket::try_from(&t[..]).is_ok());
        let k = (rng.next() as usize) % 80;
        t[k] = rng.next() as u8;
        tally(TrgPacket::try_from(&t[..]).is_ok());
        // FIFO
        let mut s = Vec::new();
        for _ in 0..(rng.next() % 12) {
            match rng.next() % 5 {
                0 => s.extend([0x3C, 0, 0, 0xFE].iter().chain(vec![7u8; 240].iter())),
                1 => s.extend([1, 0, 0x80, 0xFF]),
                2 => s.extend((rng.next() as u32).to_le_bytes()),
                _ => s.extend([rng.next() as u8, rng.next() as u8, rng.next() as u8, 0x80 | (rng.next() % 59) as u8]),
            }
        }
        let mut sl = &s[..];
        let v = chronobox_fifo(&mut sl);
        tally(v.len() * 4 <= s.len() - sl.len());
        // names
        for name in ["C09A", "PC00", "ATAT", "Pé0", "B09F", "", "C09", "😀"] {
            tally(MainEventBankName::try_from(name).is_ok());
        }
    }
    println!("MIRI-PASS decodes={} ok={}", n, ok);
}
