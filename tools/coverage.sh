#!/bin/bash
# tools/coverage.sh [tier] [ids...] : line coverage of /repo's library crates reached by the monitors' workloads.
# Informational (not a registered check): builds an instrumented copy of the harness into /verif/target/cov,
# runs the given monitors (default: all, quick tier, release profile) and writes /verif/coverage/SUMMARY.txt.
set -u
tier="${1:-quick}"; shift || true
V=/verif
TOOLS=$(dirname "$(find ~/.rustup/toolchains/nightly-x86_64-unknown-linux-gnu -name llvm-cov | head -1)")
export CARGO_NET_OFFLINE=true
COV=$V/target/cov
rm -rf $COV/prof; mkdir -p $COV/prof $V/coverage
RUSTFLAGS="-Cinstrument-coverage" CARGO_TARGET_DIR=$COV cargo build --offline --release --manifest-path $V/harness/Cargo.toml 2>&1 | tail -2
ids="$*"; [ -n "$ids" ] || ids=$($COV/release/agv list)
for id in $ids; do
  case $id in C19|C20) continue;; esac   # real binaries are separate processes, not instrumented here
  LLVM_PROFILE_FILE="$COV/prof/$id-%p-%m.profraw" AGV_BIN_DIR=$COV AGV_PROFILES=release AGV_EVIDENCE_DIR=$COV/evidence $COV/release/agv $id --tier $tier > $COV/$id.log 2>&1
  echo "$id exit=$?"
done
$TOOLS/llvm-profdata merge -sparse $COV/prof/*.profraw -o $COV/all.profdata || exit 2
$TOOLS/llvm-cov report $COV/release/agv -instr-profile=$COV/all.profdata --ignore-filename-regex='(\.cargo|rustc|/verif/)' > $V/coverage/SUMMARY.txt 2>&1
tail -40 $V/coverage/SUMMARY.txt
