#!/bin/bash
# tools/confirm_seed.sh <ID> <mN> : independent confirmation of a sub-agent's seeded change in a scratch worktree
# (never /repo): (1) applies, builds, whole existing test suite passes; (2) demo FAILS with the change;
# (3) demo PASSES without it. Prints CONFIRMED or the reason it is not.
set -u
ID="$1"; M="$2"; OUT=/tmp/wt/$ID-out; W=${CONFIRM_W:-/tmp/wt/confirm}; L=/tmp/wt/confirm_$(basename $W)
[ -d "$W" ] || git -C /repo worktree add --detach "$W" HEAD -q
cd "$W" || exit 2
git checkout -q -- . ; git clean -fdq -e target
export CARGO_NET_OFFLINE=true
patch="$OUT/$M.diff"
demo=$(ls "$OUT"/${M}_demo.* 2>/dev/null | head -1)
[ -f "$patch" ] && [ -n "$demo" ] || { echo "$ID $M: missing deliverables"; exit 2; }
git apply --check "$patch" 2>/dev/null || { echo "$ID $M: NOT-CONFIRMED patch does not apply"; exit 1; }
git apply "$patch"
if ! cargo test --workspace --offline >${L}_suite.log 2>&1; then
  echo "$ID $M: NOT-CONFIRMED existing test suite fails with the change"; git checkout -q -- .; exit 1
fi
case "$demo" in
  *.rs)
    place=$(grep -o -m1 -E "(detector|physics|analysis)/tests/[A-Za-z0-9_]+\.rs" "$demo" | head -1)
    [ -n "$place" ] || { echo "$ID $M: cannot find demo placement"; git checkout -q -- .; exit 2; }
    crate_dir=${place%%/*}; name=$(basename "$place" .rs)
    case $crate_dir in detector) pkg=alpha_g_detector;; physics) pkg=alpha_g_physics;; analysis) pkg=alpha-g-analysis;; esac
    feat=""; grep -q "verif-hooks" "$demo" && [ $pkg = alpha_g_physics ] && feat="--features verif-hooks"
    head -12 "$demo" | grep -q -- "--release" && feat="$feat --release"
    mkdir -p "$crate_dir/tests"; cp "$demo" "$place"
    run_demo() { cargo test --offline -p $pkg $feat --test $name >${L}_demo.log 2>&1; }
    ;;
  *.sh) cp "$demo" ./demo_$M.sh; run_demo() { bash ./demo_$M.sh >${L}_demo.log 2>&1; } ;;
  *.py) cp "$demo" ./demo_$M.py; run_demo() { python3 ./demo_$M.py >${L}_demo.log 2>&1; } ;;
esac
run_demo; with=$?
git apply -R "$patch"
run_demo; without=$?
git checkout -q -- . ; git clean -fdq -e target
if [ $with -ne 0 ] && [ $without -eq 0 ]; then echo "$ID $M: CONFIRMED (suite passes with change; demo fails with, passes without)"; exit 0
else echo "$ID $M: NOT-CONFIRMED demo exit with=$with without=$without"; exit 1; fi
