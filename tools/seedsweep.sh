#!/bin/bash
# tools/seedsweep.sh <tier> <seed> [<seed>...] : every check at several VERIF_SEED values on the unchanged tree;
# any line not ending in exit=0 is a false alarm (or an inconclusive run) to be investigated.
tier="$1"; shift
cd /verif && ./check build >/dev/null || exit 2
export AGV_EVIDENCE_DIR=/verif/target/sweep-evidence
for seed in "$@"; do
  for id in $(/verif/target/release/agv list); do
    out=$(VERIF_SEED=$seed /verif/target/release/agv $id --tier $tier 2>&1); rc=$?
    echo "seed=$seed $id exit=$rc $(echo "$out" | grep -m1 -E '^   kind:|INCONCLUSIVE|HARNESS')"
  done
done
