#!/bin/bash
# tools/eval_seeds.sh <tier> [seed dirs...] : run each stored seeded change against its property's check on a scratch copy
tier="${1:-quick}"; shift
W=${EVAL_W:-/tmp/agv-seeds}
dirs="$*"; [ -n "$dirs" ] || dirs=$(ls -d /verif/seeded/*/)
for d in $dirs; do
  d=${d%/}
  props=$(python3 -c "import json; print(' '.join(json.load(open('$d/meta.json'))['checks']))")
  /verif/tools/mutate.sh $W $tier $d/patch.diff $props | sed "s#^patch.diff#$(basename $d)#"
done
