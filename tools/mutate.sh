#!/bin/bash
# tools/mutate.sh <scratch dir> <tier> <patch.diff> <id> [<id>...]
# Runs the given checks against a scratch copy of the repository with <patch.diff> applied, WITHOUT touching
# /repo or /verif: the scratch dir holds a git worktree of /repo's HEAD (<scratch>/repo) and a copy of the
# harness (<scratch>/verif) whose path dependencies point at the scratch repo. The scratch dir is reused
# between calls (incremental builds); remove it with tools/mutate.sh <scratch dir> --clean.
set -u
W="$1"; shift
if [ "${1:-}" = "--clean" ]; then
  git -C /repo worktree remove --force "$W/repo" 2>/dev/null; rm -rf "$W"; exit 0
fi
tier="$1"; patch="$2"; shift 2
mkdir -p "$W"
if [ ! -d "$W/repo" ]; then git -C /repo worktree add --detach "$W/repo" HEAD -q || exit 2; fi
mkdir -p "$W/verif"
rsync -a --delete --exclude target --exclude .git --exclude replays --exclude evidence "${MUTATE_SRC:-/verif}/" "$W/verif/" || exit 2
sed -i "s#\"/repo/#\"$W/repo/#g" "$W/verif/harness/Cargo.toml"
sed -i "s#/verif/target#$W/verif/target#" "$W/verif/harness/.cargo/config.toml"
git -C "$W/repo" reset -q --hard ; git -C "$W/repo" clean -fdq -e target
# the scratch repository follows /repo's HEAD, unless a frozen harness copy pins the commit it was measured against
base=$(cat "${MUTATE_SRC:-/verif}/BASE" 2>/dev/null || git -C /repo rev-parse HEAD)
git -C "$W/repo" checkout -q --detach "$base" || exit 2
if [ "$patch" != "none" ]; then
  git -C "$W/repo" apply "$patch" 2>/dev/null || git -C "$W/repo" apply -3 "$patch" 2>/dev/null || { echo "patch does not apply: $patch"; exit 2; }
fi
export AGV_VERIF="$W/verif" AGV_REPO="$W/repo"
for id in "$@"; do
  out=$("$W/verif/check" "$id" --tier "$tier" 2>&1); rc=$?
  kind=$(echo "$out" | grep -m1 "^   kind:" | sed 's/^   kind: //')
  [ $rc -eq 2 ] && kind=$(echo "$out" | grep -m1 -E "INCONCLUSIVE|BUILD-ERROR|HARNESS-ERROR")
  echo "$(basename "$patch") $id exit=$rc ${kind}"
done
git -C "$W/repo" reset -q --hard ; git -C "$W/repo" clean -fdq -e target
