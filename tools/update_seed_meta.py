#!/usr/bin/env python3
"""tools/update_seed_meta.py <eval log> [<eval log>...] : fold the results of tools/eval_seeds.sh / selftest.sh into
seeded/*/meta.json and print a markdown table (seed, property, what it needs, check, tier, verdict)."""
import json, sys, os, re, glob
res = {}
for log in sys.argv[1:]:
    tier = "thorough" if "thorough" in log else "quick"
    for line in open(log):
        m = re.match(r"(\S+) (C\d\d) exit=(\d+) ?(.*)", line.strip())
        if m:
            res.setdefault(m.group(1), {})[(m.group(2), tier)] = (int(m.group(3)), m.group(4))
rows = []
for d in sorted(glob.glob("/verif/seeded/*/")):
    name = os.path.basename(d.rstrip("/"))
    meta = json.load(open(d + "meta.json"))
    r = res.get(name, {})
    for (chk, tier), (rc, kind) in r.items():
        meta["results"][f"{chk} {tier}"] = {"exit": rc, "first_violation_kind": kind}
        if rc == 1 and chk not in meta["caught_by"]:
            meta["caught_by"].append(chk)
    json.dump(meta, open(d + "meta.json", "w"), indent=1)
    first = open(d + "notes.md").read().strip().splitlines()
    rows.append((name, meta["property"], meta["results"]))
for name, prop, results in rows:
    cells = "; ".join(f"{k}: {'caught (' + v['first_violation_kind'][:70] + ')' if v['exit'] == 1 else 'NOT caught' if v['exit'] == 0 else 'inconclusive'}" for k, v in sorted(results.items()))
    print(f"| {name} | {prop} | {cells} |")
