#!/bin/bash
# tools/try_patch.sh <patch.diff> <tier> <id> [<id>...]
# Applies a seeded change to /repo's working tree, runs the given checks, and ALWAYS restores /repo.
# Prints one line per check: <id> exit=<code> [first VIOLATION kind]
set -u
patch="$(readlink -f "$1")"; tier="$2"; shift 2
cd /repo || exit 2
if [ -n "$(git status --porcelain --untracked-files=no)" ]; then echo "/repo is not clean" >&2; exit 2; fi
if ! git apply --check "$patch" 2>/dev/null; then echo "patch does not apply: $patch" >&2; exit 2; fi
git apply "$patch"
trap 'git -C /repo checkout -- . ; git -C /repo clean -fdq -e target' EXIT
cd /verif
for id in "$@"; do
  out=$(./check "$id" --tier "$tier" 2>&1); rc=$?
  kind=$(echo "$out" | grep -m1 "^   kind:" | sed 's/^   kind: //')
  echo "$id exit=$rc ${kind}"
done
