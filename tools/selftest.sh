#!/bin/bash
# tools/selftest.sh [tier] : every mutant under /verif/selftest and /verif/seeded against its property's check,
# on a scratch copy (never /repo). Prints one line per (mutant, check); exit=1 means the monitor caught it.
tier="${1:-quick}"
W=/tmp/agv-selftest
/verif/tools/mutate.sh $W $tier none C18 | sed 's/^/baseline /'
for d in /verif/selftest/*.diff; do
  props=$(cat "${d%.diff}.props")
  /verif/tools/mutate.sh $W $tier "$d" $props
done
for m in /verif/seeded/*/meta.json; do
  [ -f "$m" ] || continue
  dir=$(dirname "$m")
  props=$(python3 -c "import json,sys; m=json.load(open('$m')); print(' '.join(m.get('caught_by') or m.get('checks') or [m['property']]))")
  /verif/tools/mutate.sh $W $tier "$dir/patch.diff" $props
done
/verif/tools/mutate.sh $W --clean
