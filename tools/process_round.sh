#!/bin/bash
# tools/process_round.sh <tier> <m-names...> : confirm, store and evaluate every /tmp/wt/C??-out/<m>.diff not yet stored
tier="$1"; shift
for id in C01 C02 C03 C04 C05 C06 C07 C08 C09 C10 C11 C12 C13 C14 C15 C16 C17 C18 C19 C20; do
  for m in "$@"; do
    [ -f /tmp/wt/$id-out/$m.diff ] && [ -f /tmp/wt/$id-out/$m.md ] && ls /tmp/wt/$id-out/${m}_demo.* >/dev/null 2>&1 || continue
    # deliverables still being written? (anything touched in the last two minutes)
    [ -z "$(find /tmp/wt/$id-out -name "$m*" -mmin -2)" ] || continue
    [ -d /verif/seeded/$id-$m ] && continue
    if /verif/tools/confirm_seed.sh $id $m; then
      /verif/tools/store_seed.sh $id $m >/dev/null
      /verif/tools/eval_seeds.sh $tier /verif/seeded/$id-$m
    fi
  done
done
