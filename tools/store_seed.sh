#!/bin/bash
# tools/store_seed.sh <ID> <mN> : copy a CONFIRMED sub-agent change into /verif/seeded/<ID>-<mN>/
ID="$1"; M="$2"; OUT=/tmp/wt/$ID-out; D=/verif/seeded/$ID-$M
mkdir -p $D
cp $OUT/$M.diff $D/patch.diff
demo=$(ls $OUT/${M}_demo.* | head -1); cp $demo $D/$(basename $demo | sed "s/^${M}_//")
cp $OUT/$M.md $D/notes.md
python3 - "$ID" "$M" "$D" <<'PY'
import json,sys,re
ID,M,D=sys.argv[1:4]
notes=open(f"{D}/notes.md").read()
meta={"property":ID,"seed":f"{ID}-{M}","source":"independent sub-agent given only the property text and a scratch worktree",
 "needs_to_manifest":"see notes.md (written by the sub-agent)",
 "confirmed":"tools/confirm_seed.sh: patch applies to /repo HEAD in a scratch worktree; `cargo test --workspace --offline` passes with the change; the demonstration fails with the change and passes without it",
 "checks":[ID],"caught_by":[],"results":{}}
json.dump(meta,open(f"{D}/meta.json","w"),indent=1)
PY
echo stored $D
